"""External-call models for the SYM engine (trusted base; every model used by a run is listed in its evidence).

Each model is a function (eng, call, args) -> result term.  `call` carries frame/site/state, `args` are the
evaluated argument terms.  Names are matched on the *declaration* path (trait method or inherent fn) after
normalisation (core/alloc -> std, wasm_bindgen re-export prefix dropped), so re-exports do not matter.

Unknown external callee => `default`: result = ext(name, args...) (depends on all arguments) and every
argument that is a pointer to a store location reached through a `&mut` parameter receives
extmut(name, i, args...) (havoc with dependencies).  Nothing is silently dropped.
"""
import re

from .sym import binop, deref_value, enum1, field, project
from .terms import PHI, Int, is_t, mk

REG = {}
PATTERNS = []


def norm(n):
    n = n.replace("wasm_bindgen::__rt::core::", "core::").replace("wasm_bindgen::__rt::alloc::", "alloc::")
    n = re.sub(r"\b\w+::_::_serde::", "serde::", n)
    n = re.sub(r"\b(core|alloc)::", "std::", n)
    return n


def model(*names):
    def deco(f):
        for n in names:
            REG[n] = f
        return f
    return deco


def pattern(rx):
    def deco(f):
        PATTERNS.append((re.compile(rx), f))
        return f
    return deco


# functions whose result is the (value of the) first argument: encodings / views / copies, not one-way
TRANSPARENT = {}


def lookup(eng, call, k, target):
    names = [norm(k["dname"]), norm(k["name"])]
    if target is not None:
        names.insert(0, target.name)
        # derive-generated workspace bodies are dispatched on their trait method name
        if target.trait:
            names.append(norm(target.trait.split("<")[0]) + "::" + target.name.split("::")[-1])
    call["norm_names"] = names
    if target is not None and not target.derived and target.name not in eng.opaque and target.kind != "Ctor":
        # a hand-written workspace body is analysed, never modelled (unless a model names it explicitly)
        return REG.get(target.name)
    for n in names:
        f = REG.get(n)
        if f is not None:
            return f
    for n in names:
        for rx, f in PATTERNS:
            if rx.search(n):
                return f
    return None


def default(eng, call, k, args, target):
    name = call["norm_names"][0] if call.get("norm_names") else norm(k["name"])
    eng.unmodelled[name] = eng.unmodelled.get(name, 0) + 1
    # the result (and what is written through &mut arguments) may depend on the VALUES behind pointer arguments
    argv = []
    for a in args:
        v = None
        if a.op == "ref":
            try:
                v = deref_value(eng, call["state"], a)
            except Exception:
                v = None
        argv.append(v if v is not None and v.op != "undef" else a)
    res = mk("ext", name, *argv)
    # havoc &mut arguments
    t = call["term"]
    for i, a in enumerate(args):
        if a.op == "ref" and _is_mut_arg(call, i):
            eng.assign_through(call, a, mk("extmut", name, i, *argv))
    if t["target"] < 0:
        return None
    return res


def _is_mut_arg(call, i):
    """is the i-th argument operand of type &mut _ (by the caller's local type)?"""
    o = call["term"]["args"][i]
    p = o.get("m") or o.get("c")
    if p and not p[1]:
        ty = call["frame"].fn.locals[p[0]]
        return ty.startswith("&mut")
    return False


def val(eng, call, p):
    """value behind pointer argument p"""
    return deref_value(eng, call["state"], p)


def opt_some(x, origin=None):
    return enum1("std::option::Option", 1, "Some", [x], origin)


def opt_none(origin=None):
    return enum1("std::option::Option", 0, "None", [], origin)


def res_ok(x, origin=None):
    return enum1("std::result::Result", 0, "Ok", [x], origin)


def res_err(x, origin=None):
    return enum1("std::result::Result", 1, "Err", [x], origin)


def two_way(adt, alts):
    """partitioned enum value with explicit facts per alternative: alts = [(idx, vname, fields, facts)]"""
    return mk("enum", adt, tuple((i, n, tuple(f), frozenset(fa), frozenset()) for i, n, f, fa in alts))


# ---------------------------------------------------------------------------------------------------------
# panics / diverging
# ---------------------------------------------------------------------------------------------------------
@model("std::rt::panic_fmt", "std::panicking::panic_fmt", "std::rt::begin_panic", "std::panicking::panic",
       "std::panicking::panic_display", "std::option::unwrap_failed", "std::result::unwrap_failed",
       "std::panicking::panic_explicit", "std::panicking::assert_failed", "std::option::expect_failed")
def m_panic(eng, call, args):
    return None


# ---------------------------------------------------------------------------------------------------------
# slices / vec / arrays
# ---------------------------------------------------------------------------------------------------------
@model("bitvec::vec::api::<impl bitvec::vec::BitVec<T, O>>::len", "bitvec::slice::api::<impl bitvec::slice::BitSlice<T, O>>::len",
       "std::slice::<impl [T]>::len", "std::vec::Vec::<T, A>::len", "std::string::String::len",
       "std::str::<impl str>::len", "std::collections::BTreeSet::<T, A>::len")
def m_len(eng, call, args):
    r = eng.length(call["state"], val(eng, call, args[0]))
    names = " ".join(call.get("norm_names", []))
    subs = call.get("substs") or []
    if r.op == "len" and subs and ("impl [T]>::len" in names or "Vec::<T, A>::len" in names):
        eng.len_elem[r.id] = subs[0]          # element type of the measured Vec / slice (INV-ALLOC)
    return r


@model("std::slice::<impl [T]>::is_empty", "std::vec::Vec::<T, A>::is_empty",
       "std::collections::BTreeSet::<T, A>::is_empty", "std::str::<impl str>::is_empty")
def m_is_empty(eng, call, args):
    n = eng.length(call["state"], val(eng, call, args[0]))
    return binop("Eq", n, Int(0), "usize")


@model("std::ops::Deref::deref", "std::ops::DerefMut::deref_mut", "std::vec::Vec::<T, A>::as_slice",
       "std::vec::Vec::<T, A>::as_mut_slice", "std::str::<impl str>::as_bytes", "std::string::String::as_bytes",
       "std::convert::AsRef::as_ref", "std::convert::AsMut::as_mut", "std::borrow::Borrow::borrow",
       "std::string::String::as_str", "std::slice::<impl [T]>::as_ref",
       "std::array::<impl [T; N]>::as_slice", "std::array::<impl [T; N]>::as_mut_slice",
       "std::slice::<impl [T]>::as_mut", "std::vec::Vec::<T, A>::as_ref", "std::vec::Vec::<T, A>::as_mut",
       "curve25519_dalek::ristretto::CompressedRistretto::as_bytes", "std::option::Option::<T>::as_deref",

       "bitvec::vec::BitVec::<T, O>::as_raw_slice", "std::hint::must_use",
       "wasm_bindgen::__rt::ensure_ref_unwind_safe", "wasm_bindgen::__rt::ensure_unwind_safe")
def m_view(eng, call, args):
    """pointer-preserving views: the result designates the same storage / value as the argument"""
    return args[0]


@model("curve25519_dalek::ristretto::CompressedRistretto::to_bytes")
def m_to_bytes_value(eng, call, args):
    """an owned copy of the 32 encoded bytes: the value behind the receiver"""
    return val(eng, call, args[0]) if args[0].op in ("ref", "refv", "refo", "phi") else args[0]


@model("bitvec::slice::BitSlice::<T, O>::to_bitvec",
       "std::slice::<impl [T]>::to_vec", "std::borrow::ToOwned::to_owned", "std::clone::Clone::clone",
       "std::string::ToString::to_string")
def m_copy(eng, call, args):
    v = val(eng, call, args[0]) if args[0].op in ("ref", "refv", "refo", "phi") else args[0]
    return v


@model("std::convert::From::from")
def m_from(eng, call, args):
    # external From impls seen here: identity-like conversions (CtOption -> Option, Choice -> bool, Vec<->Box..)
    names = call.get("norm_names", [])
    full = " ".join(names)
    a = args[0]
    if "subtle::CtOption" in full and "Option" in full:
        return ct_to_option(a)
    if "subtle::Choice" in full:
        return mk("choice_bool", a) if a.op != "bool_choice" else a.args[0]
    return mk("conv", a)


def ct_to_option(a):
    """CtOption<T> -> Option<T>: Some iff valid"""
    return two_way("std::option::Option", [
        (0, "None", [], [(mk("ct_valid", a), "eq", 0)]),
        (1, "Some", [mk("ct_value", a)], [(mk("ct_valid", a), "eq", 1)]),
    ])


@model("std::vec::Vec::<T>::new", "std::vec::Vec::<T>::with_capacity", "std::string::String::new")
def m_vec_new(eng, call, args):
    if args:
        call["alloc_size"] = args[0]
    return mk("vec_new")


@model("std::vec::from_elem")
def m_from_elem(eng, call, args):
    call["alloc_size"] = args[1]
    return mk("from_elem", args[0], args[1])


@model("std::vec::Vec::<T, A>::push", "bitvec::vec::api::<impl bitvec::vec::BitVec<T, O>>::push")
def m_push(eng, call, args):
    old = val(eng, call, args[0])
    eng.assign_through(call, args[0], mk("push", old, args[1]))
    return mk("unit")


@model("std::vec::Vec::<T, A>::extend_from_slice")
def m_extend_from_slice(eng, call, args):
    old = val(eng, call, args[0])
    eng.assign_through(call, args[0], mk("append", old, val(eng, call, args[1])))
    return mk("unit")


@model("std::iter::Extend::extend")
def m_extend(eng, call, args):
    old = val(eng, call, args[0])
    src = args[1]
    if src.op in ("ref", "refv", "refo"):
        src = val(eng, call, src)
    eng.assign_through(call, args[0], mk("append", old, src))
    return mk("unit")


@model("std::slice::<impl [T]>::copy_from_slice", "std::slice::<impl [T]>::clone_from_slice")
def m_copy_from_slice(eng, call, args):
    dst_old = val(eng, call, args[0])
    src = val(eng, call, args[1])
    call["pre"] = ("len_eq", eng.length(call["state"], dst_old), eng.length(call["state"], src))
    # the destination keeps its own length; contents become the source
    dl = eng.length(call["state"], dst_old)
    eng.assign_through(call, args[0], src if dl is eng.length(call["state"], src) else mk("copied", src, dl))
    return mk("unit")


@model("std::slice::<impl [T]>::concat")
def m_concat(eng, call, args):
    v = val(eng, call, args[0])
    if v.op == "agg" and v.args[0] == "array":
        out = None
        for part in v.args[1:]:
            if part.op in ("ref", "refv", "refo"):
                part = val(eng, call, part)          # [a, &b, c].concat() over slices / references
            if out is None:
                # [acc, x].concat() extends the vector value `acc`; [a, b].concat() over plain byte strings builds a new one
                out = part if part.op in ("acc", "phi", "append", "push", "vec_new") else mk("append", mk("vec_new"), part)
            else:
                out = mk("append", out, part)
        return out if out is not None else mk("vec_new")
    return mk("concat", v)


@model("std::vec::Vec::<T, A>::remove")
def m_vec_remove(eng, call, args):
    old = val(eng, call, args[0])
    call["pre"] = ("lt", args[1], eng.length(call["state"], old))
    eng.assign_through(call, args[0], mk("removed", old, args[1]))
    return mk("elem", old)


@model("std::vec::Vec::<T, A>::insert")
def m_vec_insert(eng, call, args):
    old = val(eng, call, args[0])
    call["pre"] = ("le", args[1], eng.length(call["state"], old))
    eng.assign_through(call, args[0], mk("inserted", old, args[1], args[2]))
    return mk("unit")


def _range_bounds(eng, call, base_len, r):
    """(lo, hi) of a range aggregate applied to a sequence of length base_len; None if not a range"""
    if r.op == "agg" and r.args[0].startswith("adt:"):
        adt = r.args[0][4:]
        a = r.args[1:]
        if adt.endswith("ops::Range"):
            return a[0], a[1]
        if adt.endswith("ops::RangeTo"):
            return Int(0), a[0]
        if adt.endswith("ops::RangeFrom"):
            return a[0], base_len
        if adt.endswith("ops::RangeFull"):
            return Int(0), base_len
        if adt.endswith("ops::RangeInclusive"):
            return a[0], binop("Add", a[1], Int(1), "usize")
        if adt.endswith("ops::RangeToInclusive"):
            return Int(0), binop("Add", a[0], Int(1), "usize")
    return None


def mk_slice(eng, call, base, lo, hi):
    if lo.op == "int" and lo.args[0] == 0 and hi is eng.length(call["state"], base):
        return base
    # normalise nested slices
    if base.op == "slice":
        b0, l0, h0 = base.args
        return mk("slice", b0, binop("Add", l0, lo, "usize"), binop("Add", l0, hi, "usize"))
    return mk("slice", base, lo, hi)


@model("std::ops::Index::index", "std::ops::IndexMut::index_mut")
def m_index(eng, call, args):
    names = " ".join(call.get("norm_names", []))
    if "bitvec" in names:
        bv = val(eng, call, args[0])
        rb = _range_bounds(eng, call, eng.length(call["state"], bv), args[1])
        if rb is not None:
            call["pre"] = ("range", rb[0], rb[1], eng.length(call["state"], bv))
            return mk("refv", mk_slice(eng, call, bv, rb[0], rb[1]))
        return mk("refv", mk("ext", "bitvec_index", bv, args[1]))
    base = val(eng, call, args[0])
    n = eng.length(call["state"], base)
    rb = _range_bounds(eng, call, n, args[1])
    if rb is not None:
        lo, hi = rb
        call["pre"] = ("range", lo, hi, n)
        if any(x.endswith("index_mut") for x in call.get("norm_names", [])) and args[0].op == "ref":
            # mutable sub-slice of a known location: writes through it are (weak) updates of that location
            return mk("ref", args[0].args[0], args[0].args[1] + (("rng", lo, hi),))
        return mk("refv", mk_slice(eng, call, base, lo, hi))
    # single element
    call["pre"] = ("lt", args[1], n)
    if args[0].op == "ref":
        return mk("ref", args[0].args[0], args[0].args[1] + (("i", args[1]),))
    from .sym import index as sym_index
    return mk("refv", sym_index(base, args[1]))


@model("std::slice::<impl [T]>::get")
def m_get(eng, call, args):
    base = val(eng, call, args[0])
    n = eng.length(call["state"], base)
    rb = _range_bounds(eng, call, n, args[1])
    if rb is not None:
        lo, hi = rb
        okc = mk("range_ok", lo, hi, n)
        return two_way("std::option::Option", [
            (0, "None", [], [(okc, "eq", 0)]),
            (1, "Some", [mk("refv", mk_slice(eng, call, base, lo, hi))], [(okc, "eq", 1)]),
        ])
    okc = mk("lt", args[1], n)
    from .sym import index as sym_index
    return two_way("std::option::Option", [
        (0, "None", [], [(okc, "eq", 0)]),
        (1, "Some", [mk("refv", sym_index(base, args[1]))], [(okc, "eq", 1)]),
    ])


@model("std::convert::TryInto::try_into", "std::convert::TryFrom::try_from")
def m_try_into(eng, call, args):
    subs = call.get("substs") or []
    src = subs[0][0] if subs else ""
    dst = subs[1][0] if len(subs) > 1 else ""
    if any(x.endswith("TryFrom::try_from") for x in call.get("norm_names", [])):
        src, dst = dst, src          # <Dst as TryFrom<Src>>::try_from: Self is the destination
    a = args[0]
    m = re.match(r"^\[(\w+); (\d+)\]$", dst)
    if m and ("[" in src or "Vec<" in src):
        # &[T] / Vec<T> -> [T; N]: Ok iff len == N
        n = int(m.group(2))
        v = val(eng, call, a) if a.op in ("ref", "refv", "refo", "phi") else a
        ln = eng.length(call["state"], v)
        c = binop("Eq", ln, Int(n), "usize")
        if c.op == "int":
            if c.args[0]:
                return res_ok(mk("as_array", v, n))
            return res_err(mk("try_from_slice_error"))
        return two_way("std::result::Result", [
            (0, "Ok", [mk("as_array", v, n)], [(c, "eq", 1)]),
            (1, "Err", [mk("try_from_err", v)], [(c, "eq", 0)]),
        ])
    if dst in ("u8", "u16", "u32", "u64", "usize", "i32", "i64") and src in ("u8", "u16", "u32", "u64", "usize", "i32", "i64"):
        c = mk("fits", a, dst)
        return two_way("std::result::Result", [
            (0, "Ok", [mk("cast", a, src, dst)], [(c, "eq", 1)]),
            (1, "Err", [mk("try_from_int_error")], [(c, "eq", 0)]),
        ])
    # workspace TryFrom impl?
    if len(subs) > 1:
        g = eng.find_impl_fn("try_from", subs[1][0], subs[1][1], trait_contains="TryFrom")
        if g is not None:
            return eng.inline(call, g, args, [])
    return mk("ext", "try_into", a)


@model("std::convert::Into::into")
def m_into(eng, call, args):
    subs = call.get("substs") or []
    if len(subs) > 1:
        src, dst = subs[0], subs[1]
        if src[0] == dst[0]:
            return args[0]
        g = eng.find_impl_fn("from", dst[0], dst[1], trait_prefix="std::convert::From<")
        # choose the impl whose From<..> parameter matches the source type when several exist
        best = None
        for im in eng.facts.impls:
            if im["trait"] and im["trait"].startswith("std::convert::From<"):
                full = im["crate"] + "::" + im["self_ty"]
                if full == dst[0] or (im["self_ty"] == dst[0] and im["crate"] == dst[1]) or \
                        (dst[0].endswith("::" + im["self_ty"]) and dst[0].split("::")[0] == im["crate"]):
                    param = im["trait"][len("std::convert::From<"):-1]
                    if param == src[0] or src[0].endswith("::" + param) or param.endswith("::" + src[0].split("::")[-1]):
                        for name, path in im["items"]:
                            if name == "from" and path in eng.facts.fns:
                                best = eng.facts.fns[path]
        g = best or g
        if g is not None and not g.derived:
            return eng.inline(call, g, args, [])
        if "subtle::Choice" in src[0] and dst[0] == "bool":
            return mk("choice_bool", args[0])
        if "subtle::CtOption" in src[0] and dst[0].startswith("std::option::Option"):
            return ct_to_option(args[0])         # `.into()` spelling of Option::from(ct_option)
        if "Box<dyn" in dst[0]:
            return mk("boxed_err", args[0])
    a = args[0]
    if a.op in ("ref", "refv", "refo") and len(subs) > 1 and subs[0][0].startswith("&") and not subs[1][0].startswith("&"):
        a = val(eng, call, a)     # &[T] -> Vec<T>, &str -> String ...: an owned copy of the referent
    return mk("conv", a)


@model("std::num::<impl u32>::to_le_bytes", "std::num::<impl usize>::to_le_bytes", "std::num::<impl u64>::to_le_bytes",
       "std::num::<impl u16>::to_le_bytes")
def m_to_le(eng, call, args):
    w = {"u16": 2, "u32": 4, "u64": 8, "usize": eng.usize_bits // 8}
    ty = re.search(r"impl (\w+)>", " ".join(call["norm_names"])).group(1)
    return mk("bytes_of", args[0], w[ty], "le")


@model("std::num::<impl u32>::to_be_bytes", "std::num::<impl u16>::to_be_bytes", "std::num::<impl u64>::to_be_bytes",
       "std::num::<impl usize>::to_be_bytes")
def m_to_be(eng, call, args):
    w = {"u16": 2, "u32": 4, "u64": 8, "usize": eng.usize_bits // 8}
    ty = re.search(r"impl (\w+)>", " ".join(call["norm_names"])).group(1)
    return mk("bytes_of", args[0], w[ty], "be")


@model("std::num::<impl u32>::from_le_bytes", "std::num::<impl u64>::from_le_bytes",
       "std::num::<impl u16>::from_le_bytes", "std::num::<impl usize>::from_le_bytes")
def m_from_le(eng, call, args):
    ty = re.search(r"impl (\w+)>", " ".join(call["norm_names"])).group(1)
    return mk("int_of", args[0], ty, "le")


@model("std::num::<impl u32>::from_be_bytes", "std::num::<impl u64>::from_be_bytes",
       "std::num::<impl u16>::from_be_bytes", "std::num::<impl usize>::from_be_bytes")
def m_from_be(eng, call, args):
    ty = re.search(r"impl (\w+)>", " ".join(call["norm_names"])).group(1)
    return mk("int_of", args[0], ty, "be")


@pattern(r"^std::num::<impl (usize|u32|u64|u16|u8)>::checked_(add|sub|mul)$")
def m_checked(eng, call, args):
    n = " ".join(call["norm_names"])
    m = re.search(r"impl (\w+)>::checked_(\w+)", n)
    ty, op = m.group(1), m.group(2)
    r = binop(op.capitalize(), args[0], args[1], ty)
    c = mk("no_ovf", op, args[0], args[1], ty)
    return two_way("std::option::Option", [
        (0, "None", [], [(c, "eq", 0)]),
        (1, "Some", [r], [(c, "eq", 1)]),
    ])


@pattern(r"^std::num::<impl (usize|u32|u64|u16|u8)>::(saturating|wrapping)_(add|sub|mul)$")
def m_sat(eng, call, args):
    for n in call["norm_names"]:
        m = re.search(r"impl (\w+)>::(saturating|wrapping)_(\w+)$", n)
        if m:
            return mk(m.group(2) + "_" + m.group(3), args[0], args[1], m.group(1))
    return mk("ext", "sat_or_wrap", *args)


# ---------------------------------------------------------------------------------------------------------
# Option / Result / Try
# ---------------------------------------------------------------------------------------------------------
def as_enum(v, adt, names):
    """view an opaque value of a 2-variant enum type as a partitioned enum"""
    if v.op == "enum":
        return v
    alts = []
    for idx, (vn, nf) in enumerate(names):
        alts.append((idx, vn, [mk("payload", v, idx, i) for i in range(nf)], [(mk("discr", v), "eq", idx)]))
    return two_way(adt, alts)


OPT = [("None", 0), ("Some", 1)]
RES = [("Ok", 1), ("Err", 1)]


def map_alts(v, f):
    """rebuild an enum value alternative by alternative: f(idx, vname, fields) -> (adt, idx, vname, fields)"""
    alts = []
    adt = None
    for (idx, vn, fields, facts, origins) in v.args[1]:
        nadt, nidx, nvn, nfields = f(idx, vn, fields)
        adt = nadt
        alts.append((nidx, nvn, tuple(nfields), facts, origins))
    alts.sort(key=lambda a: a[0])
    # merge duplicates conservatively (should not happen for the maps used here)
    return mk("enum", adt, tuple(alts))


@model("std::ops::Try::branch")
def m_branch(eng, call, args):
    n = " ".join(call["norm_names"])
    v = args[0]
    CF = "std::ops::ControlFlow"
    if "Option" in n:
        v = as_enum(v, "std::option::Option", OPT)
        return map_alts(v, lambda i, vn, fs: (CF, 0, "Continue", fs) if i == 1 else
                        (CF, 1, "Break", [enum1("std::option::Option", 0, "None", [])]))
    v = as_enum(v, "std::result::Result", RES)
    return map_alts(v, lambda i, vn, fs: (CF, 0, "Continue", fs) if i == 0 else
                    (CF, 1, "Break", [enum1("std::result::Result", 1, "Err", fs)]))


@model("std::ops::FromResidual::from_residual")
def m_from_residual(eng, call, args):
    n = " ".join(call["norm_names"])
    origin = (call["frame"].key, call["block"])
    if "Option" in n:
        return opt_none(origin)
    v = args[0]
    e = None
    if v.op == "enum" and len(v.args[1]) == 1 and v.args[1][0][2]:
        e = v.args[1][0][2][0]
    if e is None:
        e = mk("payload", v, 1, 0)
    return res_err(mk("conv", e), origin)


@model("std::option::Option::<T>::ok_or")
def m_ok_or(eng, call, args):
    v = as_enum(args[0], "std::option::Option", OPT)
    R = "std::result::Result"
    return map_alts(v, lambda i, vn, fs: (R, 0, "Ok", fs) if i == 1 else (R, 1, "Err", [args[1]]))


@model("std::result::Result::<T, E>::ok")
def m_ok(eng, call, args):
    v = as_enum(args[0], "std::result::Result", RES)
    O = "std::option::Option"
    return map_alts(v, lambda i, vn, fs: (O, 1, "Some", fs) if i == 0 else (O, 0, "None", []))


@model("std::result::Result::<T, E>::map_err")
def m_map_err(eng, call, args):
    v = as_enum(args[0], "std::result::Result", RES)
    R = "std::result::Result"

    def f(i, vn, fs):
        if i == 0:
            return (R, 0, "Ok", fs)
        r = eng.invoke_value(call, args[1], list(fs), tag="#me")
        return (R, 1, "Err", [r if r is not None else mk("ext", "map_err")])
    return map_alts(v, f)


@model("std::option::Option::<T>::as_ref", "std::result::Result::<T, E>::as_ref")
def m_as_ref(eng, call, args):
    n = " ".join(call["norm_names"])
    v = val(eng, call, args[0])
    if "Option" in n:
        v = as_enum(v, "std::option::Option", OPT)
        return map_alts(v, lambda i, vn, fs: ("std::option::Option", i, vn, [mk("refv", x) for x in fs]))
    v = as_enum(v, "std::result::Result", RES)
    return map_alts(v, lambda i, vn, fs: ("std::result::Result", i, vn, [mk("refv", x) for x in fs]))


@model("std::option::Option::<T>::is_none", "std::option::Option::<T>::is_some",
       "std::result::Result::<T, E>::is_err", "std::result::Result::<T, E>::is_ok")
def m_is_variant(eng, call, args):
    n = call["norm_names"][0] if not call["norm_names"][0].startswith("<") else call["norm_names"][-1]
    meth = [x for x in call["norm_names"] if "::is_" in x][0].split("::")[-1]
    want = {"is_none": 0, "is_some": 1, "is_ok": 0, "is_err": 1}[meth]
    v = val(eng, call, args[0])
    if v.op == "enum":
        idxs = {a[0] for a in v.args[1]}
        if idxs == {want}:
            return Int(1, "bool")
        if want not in idxs:
            return Int(0, "bool")
    return mk("is_variant", v, want)


@model("std::option::Option::<T>::unwrap", "std::option::Option::<T>::expect",
       "std::result::Result::<T, E>::unwrap", "std::result::Result::<T, E>::expect")
def m_unwrap(eng, call, args):
    n = " ".join(call["norm_names"])
    v = args[0]
    want = 1 if "Option" in n else 0
    call["pre"] = ("variant", v, want)
    call["post_facts"] = [(mk("discr", v), "eq", want)]       # having returned, the value was the success variant
    call["post_refine"] = (v, want)
    if v.op == "enum":
        for a in v.args[1]:
            if a[0] == want:
                return a[2][0] if a[2] else mk("unit")
        return None   # definitely panics
    return mk("payload", v, want, 0)


# ---- Option / Result combinators (refactoring idioms) ---------------------------------------------------------------
def _enum_name(call):
    return "std::option::Option" if any("option::Option" in x for x in call["norm_names"]) else "std::result::Result"


def _as(call, v):
    if _enum_name(call).endswith("Option"):
        return as_enum(v, "std::option::Option", OPT), "std::option::Option", 1, ("Some", "None", 0)
    return as_enum(v, "std::result::Result", RES), "std::result::Result", 0, ("Ok", "Err", 1)


def _strip_ref(x):
    return x.args[0] if x.op == "refv" else mk("deref", x)


@model("std::option::Option::<&T>::copied", "std::option::Option::<&T>::cloned", "std::option::Option::<&mut T>::copied",
       "std::option::Option::<&mut T>::cloned", "std::result::Result::<&T, E>::copied", "std::result::Result::<&T, E>::cloned")
def m_opt_copied(eng, call, args):
    v, adt, good, _ = _as(call, args[0])
    return map_alts(v, lambda i, vn, fs: (adt, i, vn, [_strip_ref(x) for x in fs] if i == good else fs))


def _with_alt_context(r, alt):
    """an enum produced while handling alternative `alt` of another enum inherits that alternative's facts/origins"""
    if r.op != "enum":
        return r
    out = []
    for (i, vn, fs, facts, origins) in r.args[1]:
        out.append((i, vn, fs, frozenset(facts) | frozenset(alt[3]) if not origins and not alt[4] else frozenset(facts),
                    origins if origins else alt[4]))
    return mk("enum", r.args[0], tuple(out))


@model("std::option::Option::<T>::map", "std::result::Result::<T, E>::map")
def m_opt_map(eng, call, args):
    v, adt, good, _ = _as(call, args[0])
    alts = []
    for (i, vn, fs, facts, origins) in v.args[1]:
        if i != good:
            alts.append((i, vn, fs, facts, origins))
            continue
        # the closure runs only when this alternative was selected: its facts hold inside
        amb = set(facts)
        for (fk, b) in origins:
            amb |= set(eng.facts_at(fk, b)) if len(origins) == 1 else set()
        r = eng.invoke_value(call, args[1], list(fs), ambient=frozenset(amb), tag="#omap")
        alts.append((i, vn, (r if r is not None else mk("ext", "map", *fs),), facts, origins))
    alts.sort(key=lambda a: a[0])
    return mk("enum", adt, tuple(alts))


@model("std::option::Option::<T>::and_then", "std::result::Result::<T, E>::and_then")
def m_opt_and_then(eng, call, args):
    v, adt, good, names = _as(call, args[0])
    inc = {}
    for alt in v.args[1]:
        if alt[0] != good:
            inc[("pass", alt[0])] = mk("enum", adt, (alt,))
            continue
        r = eng.invoke_value(call, args[1], list(alt[2]), tag="#andthen")
        if r is None:
            continue
        if r.op != "enum":
            r = as_enum(r, adt, OPT if adt.endswith("Option") else RES)
        inc[("then", alt[0])] = _with_alt_context(r, alt)
    if not inc:
        return None
    return eng.join_values(("andthen", call["site"]), inc)


@model("std::option::Option::<T>::filter")
def m_opt_filter(eng, call, args):
    """Some(x).filter(p): Some(x) iff p(&x), None otherwise"""
    v = as_enum(args[0], "std::option::Option", OPT)
    alts = []
    none_o = frozenset()
    have_none = False
    for (i, vn, fs, facts, origins) in v.args[1]:
        if i == 0:
            have_none = True
            none_o |= origins
            continue
        r = eng.invoke_value(call, args[1], [mk("refv", fs[0])], ambient=frozenset(facts), tag="#ofilter")
        if r is None:
            continue
        alts.append((1, "Some", fs, frozenset(facts) | frozenset([(r, "eq", 1)]), origins))
        have_none = True
    if have_none:
        alts.append((0, "None", (), frozenset(), none_o))
    alts.sort(key=lambda a: a[0])
    return mk("enum", "std::option::Option", tuple(alts))


@model("std::collections::HashMap::<K, V, S, A>::into_values", "std::collections::BTreeMap::<K, V, A>::into_values")
def m_into_values(eng, call, args):
    m = args[0] if args[0].op not in ("ref", "refv", "refo") else val(eng, call, args[0])
    return mk("iter", mk("map_values", m), False, call["site"])


@model("std::option::Option::<T>::zip")
def m_opt_zip(eng, call, args):
    """a.zip(b): Some((x, y)) iff both are Some"""
    a = as_enum(args[0], "std::option::Option", OPT)
    b = as_enum(args[1], "std::option::Option", OPT)
    sa = [x for x in a.args[1] if x[0] == 1]
    sb = [x for x in b.args[1] if x[0] == 1]
    alts = []
    na = [x for x in a.args[1] if x[0] == 0]
    nb = [x for x in b.args[1] if x[0] == 0]
    if na or nb:
        alts.append((0, "None", (), frozenset(), frozenset().union(*[x[4] for x in na + nb]) if (na or nb) else frozenset()))
    if sa and sb:
        pair = mk("agg", "tuple", sa[0][2][0], sb[0][2][0])
        alts.append((1, "Some", (pair,), frozenset(sa[0][3]) | frozenset(sb[0][3]), frozenset()))
    return mk("enum", "std::option::Option", tuple(alts))


@model("std::option::Option::<T>::ok_or_else")
def m_ok_or_else(eng, call, args):
    v = as_enum(args[0], "std::option::Option", OPT)
    R = "std::result::Result"

    def f(i, vn, fs):
        if i == 1:
            return (R, 0, "Ok", fs)
        r = eng.invoke_value(call, args[1], [], tag="#ooe")
        return (R, 1, "Err", [r if r is not None else mk("ext", "ok_or_else")])
    return map_alts(v, f)


@model("std::option::Option::<T>::unwrap_or", "std::result::Result::<T, E>::unwrap_or")
def m_unwrap_or(eng, call, args):
    v, adt, good, _ = _as(call, args[0])
    inc = {}
    for a in v.args[1]:
        inc["good" if a[0] == good else "other"] = (a[2][0] if a[2] else mk("unit")) if a[0] == good else args[1]
    return eng.join_values(("uo", call["site"]), inc)


@model("std::option::Option::<T>::is_some_and", "std::option::Option::<T>::is_none_or", "std::result::Result::<T, E>::is_ok_and")
def m_is_some_and(eng, call, args):
    v, adt, good, _ = _as(call, args[0])
    meth = call["norm_names"][-1].split("::")[-1]
    inc = {}
    for a in v.args[1]:
        if a[0] == good:
            r = eng.invoke_value(call, args[1], list(a[2]), tag="#isa")
            inc["good"] = r if r is not None else mk("ext", meth)
        else:
            inc["other"] = Int(1 if meth == "is_none_or" else 0, "bool")
    return eng.join_values(("isa", call["site"]), inc)


@model("std::option::Option::<T>::get_or_insert")
def m_get_or_insert(eng, call, args):
    """*self = Some(v) only while *self is None; returns &mut to the payload.  The new value is a join keyed ("goi", site)
    with incoming {"keep": old, "set": Some(v)} - the shape of `if x.is_none() { x = Some(v) }` (see panic._set_once)."""
    old = val(eng, call, args[0])
    from .terms import PHI
    key = ("goi", call["site"])
    inc = {"keep": old, "set": opt_some(args[1])}
    if PHI.get(key) != inc:
        PHI[key] = inc
        eng.phi_changed = True
    new = mk("phi", key)
    eng.assign_through(call, args[0], new)
    if args[0].op == "ref":
        return mk("ref", args[0].args[0], args[0].args[1] + (("v", 1), ("f", 0)))
    return mk("refv", mk("payload", new, 1, 0))


@model("std::option::Option::<T>::unwrap_or_else")
def m_unwrap_or_else(eng, call, args):
    v = as_enum(args[0], "std::option::Option", OPT)
    inc = {}
    for a in v.args[1]:
        if a[0] == 1:
            inc["some"] = a[2][0]
        else:
            r = eng.invoke_value(call, args[1], [], tag="#uoe")
            if r is not None:
                inc["none"] = r
    if not inc:
        return None
    return eng.join_values(("uoe", call["site"]), inc)


# ---------------------------------------------------------------------------------------------------------
# iterators (collections are summarised: an iterator is iter(src); its elements are elem(src))
# ---------------------------------------------------------------------------------------------------------
def trivial_phi_value(t, _stack=frozenset()):
    """phi(X, self) = X, also through cycles of such joins (an iterator or collection that a loop body hands back
    unchanged is its entry value on every iteration); t itself when the join merges different values"""
    if not is_t(t) or t.op != "phi":
        return t
    if t.id in _stack:
        return t
    vals = set()
    out = None
    for v in (PHI.get(t.args[0]) or {}).values():
        r = trivial_phi_value(v, _stack | {t.id}) if is_t(v) and v.op == "phi" else v
        if r is t or (is_t(r) and r.id in _stack):
            continue
        if is_t(r):
            if r.id not in vals:
                vals.add(r.id)
                out = r
    return out if len(vals) == 1 else t


def elem_of(eng, call, it):
    """abstract element yielded by iterator value `it`"""
    if it.op == "phi":
        it = trivial_phi_value(it)
    op = it.op
    if op == "iter":
        src, byref = it.args[0], it.args[1]
        e = mk("elem", src, *it.args[2:])
        if src.op == "agg" and src.args[0] == "array" and 2 <= len(src.args) <= 9:
            # array literal: keep the elements apart (each is absorbed / used on its own)
            e = src.args[1] if len(src.args) == 2 else mk("oneof", *src.args[1:])
        return mk("refv", e) if byref else e
    if op == "iter_mut":
        ptr, n, site = it.args
        pos = mk("range_elem", Int(0, "usize"), n, site)
        return mk("ref", ptr.args[0], ptr.args[1] + (("i", pos),))
    if op == "range_iter":
        return mk("range_elem", it.args[0], it.args[1], it.args[2])
    if op == "agg" and it.args[0].endswith("ops::Range") and len(it.args) == 3:
        return mk("range_elem", it.args[1], it.args[2], call["site"])
    if op == "mapped":
        return it.args[1]
    if op in ("filtered", "cloned_iter", "adapted"):
        e = elem_of(eng, call, it.args[0])
        if op == "cloned_iter" and e.op == "refv":
            return e.args[0]
        return e
    if op == "chained":
        return mk("chain_elem", elem_of(eng, call, it.args[0]), elem_of(eng, call, it.args[1]), it)
    if op == "zipped":
        return mk("agg", "tuple", elem_of(eng, call, it.args[0]), elem_of(eng, call, it.args[1]))
    if op == "enumerated":
        if it.args[0].op == "iter_mut":
            # (i, &mut a[i]) with the SAME position i
            ptr, n, site = it.args[0].args
            pos = mk("range_elem", Int(0, "usize"), n, site)
            return mk("agg", "tuple", pos, mk("ref", ptr.args[0], ptr.args[1] + (("i", pos),)))
        return mk("agg", "tuple", mk("range_elem", Int(0), mk("len_iter", it.args[0]), "enum"), elem_of(eng, call, it.args[0]))
    return mk("elem", it)


def iter_facts(it):
    """facts that hold for every element of the iterator (filter predicates)"""
    out = set()
    while is_t(it) and it.op in ("filtered", "mapped", "cloned_iter", "adapted", "enumerated"):
        if it.op == "filtered":
            out.add((it.args[1], "eq", 1))
        if it.op == "mapped":
            break
        it = it.args[0]
    return frozenset(out)


def range_facts(e):
    """range_elem(lo, hi, site): lo <= e < hi"""
    return [(mk("le", e.args[0], e), "eq", 1), (mk("lt", e, e.args[1]), "eq", 1)]


@model("std::slice::<impl [T]>::iter", "std::slice::<impl [T]>::iter_mut", "std::vec::Vec::<T, A>::iter",
       "bitvec::slice::api::<impl bitvec::slice::BitSlice<T, O>>::iter")
def m_iter(eng, call, args):
    # the site distinguishes the elements of different (e.g. nested) iterations over one collection
    if any(x.endswith("::iter_mut") for x in call.get("norm_names", [])) and args[0].op == "ref":
        # mutable iteration over a known location: the elements are pointers into it, so writes through them are
        # (weak, indexed) updates of that location
        v = val(eng, call, args[0])
        return mk("iter_mut", args[0], eng.length(call["state"], v), call["site"])
    return mk("iter", val(eng, call, args[0]), True, call["site"])


@model("std::collections::HashMap::<K, V, S, A>::values")
def m_values(eng, call, args):
    return mk("iter", mk("map_values", val(eng, call, args[0])), True, call["site"])


@model("std::iter::IntoIterator::into_iter", "rayon::iter::IntoParallelIterator::into_par_iter")
def m_into_iter(eng, call, args):
    a = args[0]
    if a.op in ("iter", "iter_mut", "range_iter", "mapped", "filtered", "cloned_iter", "adapted", "enumerated", "chained", "flat_mapped", "zipped"):
        return a
    if a.op == "agg" and a.args[0].endswith("ops::Range"):
        return mk("range_iter", a.args[1], a.args[2], call["site"])
    if a.op in ("ref", "refv", "refo"):
        return mk("iter", val(eng, call, a), True, call["site"])
    subs = call.get("substs") or []
    if subs and eng.find_impl_fn("next", subs[0][0], subs[0][1], trait_contains="Iterator") is not None:
        return a   # a workspace iterator type (Evaluator)
    return mk("iter", a, False, call["site"])


@model("std::iter::Iterator::cloned", "std::iter::Iterator::copied", "bitvec::slice::Iter::<'a, T, O>::by_vals")
def m_cloned(eng, call, args):
    return mk("cloned_iter", args[0])


@model("std::iter::Iterator::peekable", "std::iter::Iterator::rev", "std::iter::Iterator::skip",
       "std::iter::Iterator::take", "std::iter::Iterator::by_ref", "std::iter::Iterator::fuse")
def m_adapt(eng, call, args):
    meth = call["norm_names"][-1].split("::")[-1]
    call["adaptor"] = meth
    if args[0].op == "range_iter" and meth == "rev":
        return args[0]
    return mk("adapted", args[0], meth, *args[1:])


@model("std::iter::ExactSizeIterator::len")
def m_exact_len(eng, call, args):
    it = val(eng, call, args[0]) if args[0].op in ("ref", "refv", "refo") else args[0]
    return mk("len_iter", it)


@model("std::array::from_fn")
def m_array_from_fn(eng, call, args):
    """[f(0), f(1), .., f(N-1)]: one closure invocation per position"""
    subs = call.get("substs") or []
    n = None
    for sb in subs:
        if re.fullmatch(r"\d+", sb[0].strip()):
            n = int(sb[0])
    dst = " ".join(call.get("norm_names", []))
    if n is None:
        # the array length is a const generic: take it from the destination type of the call
        ty = call["frame"].fn.locals[call["term"]["dest"][0]] if "dest" in call["term"] else ""
        m = re.search(r"; (\d+)\]$", ty)
        n = int(m.group(1)) if m else None
    if n is None:
        return mk("ext", "std::array::from_fn", *args)
    pos = mk("range_elem", Int(0, "usize"), Int(n, "usize"), call["site"])
    r = call_closure(eng, call, args[0], [pos], ambient=frozenset(range_facts(pos)), tag="#map")
    if r is None:
        return None
    return mk("from_fn", Int(n, "usize"), r, pos)


@model("std::iter::once")
def m_once(eng, call, args):
    return mk("iter", mk("agg", "array", args[0]), False, call["site"])      # a one-element sequence


@model("std::iter::Iterator::chain")
def m_chain(eng, call, args):
    return mk("chained", args[0], args[1])          # all elements of the first, then all elements of the second


@model("std::iter::repeat_with")
def m_repeat_with(eng, call, args):
    """an unbounded iterator whose every element is a fresh invocation of the closure (one call per element, like map)"""
    r = call_closure(eng, call, args[0], [], tag="#map")
    if r is None:
        r = mk("never")
    return mk("mapped", mk("iter", mk("unbounded", call["site"]), False, call["site"]), r)


@model("std::iter::Iterator::enumerate")
def m_enumerate(eng, call, args):
    return mk("enumerated", args[0])


@model("std::iter::Peekable::<I>::peek")
def m_peek(eng, call, args):
    it = val(eng, call, args[0])
    e = elem_of(eng, call, it)
    # peek() yields the element the iterator stands on; rules that need "the first element" additionally
    # check that nothing consumed the iterator before (C05.R3)
    e = mk("peeked", e)
    return two_way("std::option::Option", [
        (0, "None", [], [(mk("iter_empty", it), "eq", 1)]),
        (1, "Some", [mk("refv", e)], [(mk("iter_empty", it), "eq", 0)]),
    ])


@model("std::iter::Iterator::next")
def m_next(eng, call, args):
    # workspace iterator impl?
    subs = call.get("substs") or []
    if subs:
        g = eng.find_impl_fn("next", subs[0][0], subs[0][1], trait_contains="Iterator")
        if g is not None:
            return eng.inline(call, g, args, [])
    it = val(eng, call, args[0])
    fr = call["frame"]
    b = call["block"]
    in_loop = any(fr.cfg.dominates(h, b) and h in fr.cfg.reachable_from(b) for h in fr.cfg.loop_heads())
    base = it
    while base.op == "adapted" and base.args[1] in ("peekable", "by_ref", "fuse"):
        base = base.args[0]
    if not in_loop and base.op == "iter" and args[0].op == "ref" and not (base.args[0].op == "agg" and base.args[0].args[0] == "array"):
        # `let first = it.next()` on a fresh iterator outside any loop: the FIRST element; the iterator then stands on the rest
        from .sym import index as sym_index
        first = sym_index(base.args[0], Int(0, "usize"))
        e = mk("refv", first) if base.args[1] else first
        eng.assign_through(call, args[0], mk("adapted", it, "skip", Int(1, "usize")))
        return two_way("std::option::Option", [
            (0, "None", [], [(mk("iter_empty", it), "eq", 1)]),
            (1, "Some", [e], [(mk("iter_empty", it), "eq", 0)]),
        ])
    e = elem_of(eng, call, it)
    facts = list(iter_facts(it))
    if e.op == "range_elem":
        facts += range_facts(e)
    return two_way("std::option::Option", [
        (0, "None", [], []),
        (1, "Some", [e], facts),
    ])


def call_closure(eng, call, clo, cargs, ambient=frozenset(), tag=""):
    return eng.invoke_value(call, clo, cargs, ambient=ambient, tag=tag)


@model("std::iter::Iterator::map", "rayon::iter::ParallelIterator::map")
def m_map(eng, call, args):
    it, clo = args
    e = elem_of(eng, call, it)
    amb = set(iter_facts(it))
    if e.op == "range_elem":
        amb.update(range_facts(e))
    r = call_closure(eng, call, clo, [e], ambient=frozenset(amb), tag="#map")
    if r is None:
        r = mk("never")
    return mk("mapped", it, r)


@model("std::iter::Iterator::filter")
def m_filter(eng, call, args):
    it, clo = args
    e = elem_of(eng, call, it)
    r = call_closure(eng, call, clo, [mk("refv", e)], ambient=iter_facts(it), tag="#filter")
    if r is None:
        r = mk("never")
    return mk("filtered", it, r)


@model("std::iter::Iterator::fold")
def m_fold(eng, call, args):
    it, init, clo = args
    e = elem_of(eng, call, it)
    acc = mk("acc", call["site"])
    amb = set(iter_facts(it))
    if e.op == "range_elem":
        amb.update(range_facts(e))
    r = call_closure(eng, call, clo, [acc, e], ambient=frozenset(amb), tag="#fold")
    if r is None:
        r = mk("never")
    return mk("fold", init, r, it, acc)


@model("std::iter::Iterator::sum", "std::iter::Iterator::product")
def m_sum_product(eng, call, args):
    """sum() / product(): the fold with + from the additive identity, resp. * from the multiplicative identity (for the
    field type the derive generates exactly these folds; for integers the identities are 0 / 1)"""
    it = args[0]
    e = elem_of(eng, call, it)
    if e.op == "refv":
        e = e.args[0]
    acc = mk("acc", call["site"])
    meth = call["norm_names"][-1].split("::")[-1]
    subs = call.get("substs") or []
    ty = subs[-1][0] if subs else "?"
    is_int = ty in ("u8", "u16", "u32", "u64", "u128", "usize", "i8", "i16", "i32", "i64", "i128", "isize")
    if meth == "sum":
        init = Int(0, ty) if is_int else mk("constdef", "ff::Field::ZERO", ty)
        body = binop("Add", acc, e, ty) if is_int else mk("alg_add", acc, e)
    else:
        init = Int(1, ty) if is_int else mk("constdef", "ff::Field::ONE", ty)
        body = binop("Mul", acc, e, ty) if is_int else mk("alg_mul", acc, e)
    return mk("fold", init, body, it, acc)


@model("std::iter::Iterator::flat_map")
def m_flat_map(eng, call, args):
    it, clo = args
    e = elem_of(eng, call, it)
    amb = set(iter_facts(it))
    if e.op == "range_elem":
        amb.update(range_facts(e))
    r = call_closure(eng, call, clo, [e], ambient=frozenset(amb), tag="#map")
    if r is None:
        r = mk("never")
    return mk("flat_mapped", it, r)       # the concatenation of r over the elements of it


@model("std::iter::Iterator::any", "std::iter::Iterator::all", "std::iter::Iterator::position",
       "std::iter::Iterator::find", "std::iter::Iterator::for_each")
def m_pred_consumer(eng, call, args):
    meth = [x for x in call["norm_names"] if x.startswith("std::iter::Iterator::")][0].split("::")[-1]
    itp, clo = args
    it = val(eng, call, itp) if itp.op in ("ref", "refv", "refo") else itp
    e = elem_of(eng, call, it)
    arg = mk("refv", e) if meth == "find" else e
    if meth == "for_each":
        # the closure runs zero or more times: what it writes through captured references is a loop-carried value.
        # pass 1 finds the locations it writes; pass 2 runs it on the joins {before the loop, after one more iteration}
        st = call["state"]
        before = dict(st)
        call_closure(eng, call, clo, [arg], ambient=iter_facts(it), tag="#" + meth)
        written = [k for k, v in st.items() if before.get(k) is not v and k in before]
        if written:
            keys = {}
            for k in written:
                key = ("foreach", call["site"], k)
                keys[k] = key
                if key not in PHI:
                    PHI[key] = {"pre": before[k], "post": before[k]}
                    eng.phi_changed = True
                st[k] = mk("phi", key)
            for k in list(st.keys()):
                if k not in before:
                    del st[k]
            call_closure(eng, call, clo, [arg], ambient=iter_facts(it), tag="#" + meth)
            for k in written:
                inc = {"pre": before[k], "post": st[k]}
                if PHI.get(keys[k]) != inc:
                    PHI[keys[k]] = inc
                    eng.phi_changed = True
                st[k] = mk("phi", keys[k])
        return mk("unit")
    r = call_closure(eng, call, clo, [arg], ambient=iter_facts(it), tag="#" + meth)
    if r is None:
        r = mk("never")
    if meth in ("any", "all"):
        return mk("iter_" + meth, it, r)
    if meth == "position":
        c = mk("iter_position", it, r)
        ln = mk("len_iter", it)
        return two_way("std::option::Option", [
            (0, "None", [], []),
            (1, "Some", [c], [(mk("lt", c, ln), "eq", 1)]),
        ])
    if meth == "find":
        return two_way("std::option::Option", [(0, "None", [], []), (1, "Some", [e], [(r, "eq", 1)])])
    return mk("unit")


@model("std::slice::<impl [T]>::contains", "std::vec::Vec::<T, A>::contains")
def m_slice_contains(eng, call, args):
    """v.contains(x) == v.iter().any(|e| e == x)"""
    v = val(eng, call, args[0])
    x = val(eng, call, args[1]) if args[1].op in ("ref", "refv", "refo") else args[1]
    it = mk("iter", v, True, call["site"])
    e = mk("elem", v, call["site"])
    return mk("iter_any", it, mk("eq", e, x))


@model("std::iter::Iterator::collect", "rayon::iter::ParallelIterator::collect")
def m_collect(eng, call, args):
    subs = call.get("substs") or []
    dst = subs[1][0] if len(subs) > 1 else ""
    it = args[0]
    e = elem_of(eng, call, it)
    if dst.startswith("std::option::Option<") or dst.startswith("std::result::Result<"):
        # Option<Vec<T>> / Result<Vec<T>, E> from an iterator of Option<T> / Result<T, E>: the collection exists only
        # if every element was Some / Ok, so the element's success facts carry over to the collected value
        is_opt = dst.startswith("std::option::Option<")
        adt = "std::option::Option" if is_opt else "std::result::Result"
        ee = as_enum(e, adt, OPT if is_opt else RES)
        good_idx = 1 if is_opt else 0
        inner = [a for a in ee.args[1] if a[0] == good_idx]
        bad = [a for a in ee.args[1] if a[0] != good_idx]
        pay = inner[0][2][0] if inner and inner[0][2] else mk("never")
        col = mk("collected", mk("mapped", it, pay))
        alts = []
        if inner:
            alts.append((good_idx, "Some" if is_opt else "Ok", (col,), inner[0][3], inner[0][4]))
        if bad:
            # the failing element's alternative keeps the facts / creation sites under which it arises
            alts.append((bad[0][0], bad[0][1], bad[0][2], bad[0][3], bad[0][4]))
        alts.sort(key=lambda a: a[0])
        return mk("enum", adt, tuple(alts))
    return mk("collected", it)


# ---------------------------------------------------------------------------------------------------------
# Strobe (strobe-rs 0.10.0).  Source read: operations are total when `more == false`.
# ---------------------------------------------------------------------------------------------------------
@model("strobe_rs::Strobe::new")
def m_strobe_new(eng, call, args):
    return mk("strobe_new", val(eng, call, args[0]))


def _sop(kind):
    def f(eng, call, args):
        s, data, more = args
        old = val(eng, call, s)
        d = val(eng, call, data)
        call["strobe_more"] = more
        eng.assign_through(call, s, mk("sop", old, kind, d))
        return mk("unit")
    f.__name__ = "m_strobe_" + kind
    return f


for _k in ("ad", "key", "meta_ad"):
    REG["strobe_rs::Strobe::" + _k] = _sop(_k)


def _sout(kind):
    def f(eng, call, args):
        s, buf, more = args
        old = val(eng, call, s)
        b = val(eng, call, buf)
        call["strobe_more"] = more
        ln = eng.length(call["state"], b)
        if kind in ("send_enc", "recv_enc"):
            ns = mk("sop", old, kind, b)
        else:
            ns = mk("sop", old, kind, ln)
        eng.assign_through(call, s, ns)
        eng.assign_through(call, buf, mk("owf", kind, ns, ln))
        return mk("unit")
    f.__name__ = "m_strobe_" + kind
    return f


for _k in ("prf", "send_mac", "send_enc", "recv_enc", "send_clr", "recv_clr"):
    REG["strobe_rs::Strobe::" + _k] = _sout(_k)


@model("strobe_rs::Strobe::recv_mac")
def m_recv_mac(eng, call, args):
    s, mac, more = args[0], args[1], (args[2] if len(args) > 2 else Int(0, "bool"))
    old = val(eng, call, s)
    m = val(eng, call, mac)
    call["strobe_more"] = more
    ns = mk("sop", old, "recv_mac", m)
    eng.assign_through(call, s, ns)
    return mk("owf", "recv_mac", ns, Int(0))


@model("std::clone::Clone::clone#strobe")
def _unused(eng, call, args):
    return args[0]


# ---------------------------------------------------------------------------------------------------------
# randomness
# ---------------------------------------------------------------------------------------------------------
def rng_draw(eng, call, rng_ptr, self_ty, what, outbuf=None):
    """one draw from the generator behind rng_ptr.  Workspace RngCore impls (StrobeRng) are inlined through
    fill_bytes on a scratch buffer; anything else is a fresh atom rng(kind, site)."""
    g = None
    if self_ty:
        # `impl RngCore for &mut R` forwards to R
        t = self_ty[0]
        while t.startswith("&"):
            t = t[1:].lstrip()
            if t.startswith("mut "):
                t = t[4:]
        self_ty = (t, self_ty[1])
        g = eng.find_impl_fn("fill_bytes", self_ty[0], self_ty[1], trait_contains="RngCore")
    if g is not None:
        state = call["state"]
        if outbuf is None:
            loc = ("scratch", call["site"], what)
            state[loc] = mk("from_elem", Int(0, "u8"), mk("drawlen", what))
            outbuf = mk("ref", loc, ())
            scratch = loc
        else:
            scratch = None
        r = eng.inline(call, g, [rng_ptr, outbuf], [], tag="#rng")
        v = deref_value(eng, call["state"], outbuf)
        if scratch is not None:
            call["state"].pop(scratch, None)
        return v
    kind = self_ty[0] if self_ty else "?"
    rv = deref_value(eng, call["state"], rng_ptr) if rng_ptr.op in ("ref", "refv", "refo", "phi") else rng_ptr
    atom = mk("rng", kind, call["site"], what, rv if rv.op in ("param", "deref", "phi") else mk("unit"))
    if outbuf is not None:
        eng.assign_through(call, outbuf, atom)
    return atom


@model("rand::Rng::fill", "rand_core::RngCore::fill_bytes", "rand::RngCore::fill_bytes",
       "rand_core::RngCore::try_fill_bytes")
def m_rng_fill(eng, call, args):
    subs = call.get("substs") or []
    st = subs[0] if subs else None
    rng_draw(eng, call, args[0], st, "fill", outbuf=args[1])
    return mk("unit")


@model("ff::Field::random")
def m_field_random(eng, call, args):
    subs = call.get("substs") or []
    # substs: [Self(Fp), R]  (R may be `&mut R`-free generic param after substitution)
    st = subs[-1] if subs else None
    v = rng_draw(eng, call, args[0], st, "Fp::random")
    return mk("fp_random", v)


@model("curve25519_dalek::Scalar::random")
def m_scalar_random(eng, call, args):
    subs = call.get("substs") or []
    st = subs[-1] if subs else None
    v = rng_draw(eng, call, args[0], st, "Scalar::random")
    return mk("scalar_random", v)


@model("rand::thread_rng")
def m_thread_rng(eng, call, args):
    return mk("agg", "adt:rand::rngs::ThreadRng")


@model("rand_core::impls::next_u32_via_fill", "rand_core::impls::next_u64_via_fill")
def m_next_via_fill(eng, call, args):
    subs = call.get("substs") or []
    v = rng_draw(eng, call, args[0], subs[0] if subs else None, "next")
    return mk("int_of", v, "u64", "le")


# ---------------------------------------------------------------------------------------------------------
# field / group algebra (total; terms keep their head so rules can recognise invert(x), x*P ...)
# ---------------------------------------------------------------------------------------------------------
ALG = {
    "std::ops::Add::add": "alg_add", "std::ops::Sub::sub": "alg_sub", "std::ops::Mul::mul": "alg_mul",
    "std::ops::Neg::neg": "alg_neg", "std::ops::AddAssign::add_assign": "alg_add",
    "std::ops::SubAssign::sub_assign": "alg_sub", "std::ops::MulAssign::mul_assign": "alg_mul",
}


def _alg_val(eng, call, a):
    # operands may be passed by reference (&Scalar * &Point)
    if a.op in ("ref", "refv", "refo"):
        return deref_value(eng, call["state"], a)
    return a


def _mk_alg(dn, op):
    assign = dn.endswith("_assign")

    def f(eng, call, args):
        if assign:
            old = deref_value(eng, call["state"], args[0])
            eng.assign_through(call, args[0], mk(op, old, _alg_val(eng, call, args[1])))
            return mk("unit")
        return mk(op, *[_alg_val(eng, call, a) for a in args])
    f.__name__ = "m_" + op + ("_assign" if assign else "")
    return f


for _dn, _op in ALG.items():
    REG[_dn] = _mk_alg(_dn, _op)


@model("curve25519_dalek::Scalar::invert")
def m_scalar_invert(eng, call, args):
    return mk("scalar_invert", _alg_val(eng, call, args[0]))


@model("ff::Field::invert")
def m_fp_invert(eng, call, args):
    return mk("fp_invert", _alg_val(eng, call, args[0]))


@model("curve25519_dalek::Scalar::from_bytes_mod_order", "curve25519_dalek::Scalar::from_bytes_mod_order_wide",
       "curve25519_dalek::RistrettoPoint::from_uniform_bytes")
def m_from_bytes_alg(eng, call, args):
    nm = call["norm_names"][0].split("::")[-1]
    return mk(nm, _alg_val(eng, call, args[0]))


@model("curve25519_dalek::RistrettoPoint::compress")
def m_compress(eng, call, args):
    return mk("compress", _alg_val(eng, call, args[0]))


@model("curve25519_dalek::ristretto::CompressedRistretto::decompress")
def m_decompress(eng, call, args):
    c = _alg_val(eng, call, args[0])
    if c.op == "compress":
        return opt_some(c.args[0])
    ok = mk("decodable", c)
    return two_way("std::option::Option", [
        (0, "None", [], [(ok, "eq", 0)]),
        (1, "Some", [mk("decompress", c)], [(ok, "eq", 1)]),
    ])


@model("curve25519_dalek::ristretto::CompressedRistretto::from_slice")
def m_cr_from_slice(eng, call, args):
    v = val(eng, call, args[0])
    ln = eng.length(call["state"], v)
    c = binop("Eq", ln, Int(32), "usize")
    return two_way("std::result::Result", [
        (0, "Ok", [mk("agg", "adt:curve25519_dalek::ristretto::CompressedRistretto", v)], [(c, "eq", 1)]),
        (1, "Err", [mk("try_from_slice_error")], [(c, "eq", 0)]),
    ])


@model("curve25519_dalek::traits::Identity::identity")
def m_identity(eng, call, args):
    return mk("identity")


@model("ff::derive::subtle::CtOption::<T>::is_none", "ff::derive::subtle::CtOption::<T>::is_some",
       "subtle::CtOption::<T>::is_none", "subtle::CtOption::<T>::is_some")
def m_ct_is(eng, call, args):
    meth = call["norm_names"][0].split("::")[-1]
    v = val(eng, call, args[0])
    return mk("choice", mk("ct_valid", v), 0 if meth == "is_none" else 1)


@model("ff::derive::subtle::CtOption::<T>::unwrap", "subtle::CtOption::<T>::unwrap",
       "ff::derive::subtle::CtOption::<T>::expect")
def m_ct_unwrap(eng, call, args):
    call["pre"] = ("ct_valid", args[0])
    return mk("ct_value", args[0])


@model("ff::Field::is_zero", "ff::Field::is_zero_vartime")
def m_is_zero(eng, call, args):
    v = val(eng, call, args[0])
    return mk("choice", mk("is_zero", v), 1)


@model("ff::PrimeField::from_repr", "ff::PrimeField::from_repr_vartime")
def m_from_repr(eng, call, args):
    return mk("fp_from_repr", args[0])


@model("ff::PrimeField::to_repr")
def m_to_repr(eng, call, args):
    return mk("fp_to_repr", _alg_val(eng, call, args[0]))


@model("std::cmp::PartialEq::eq", "std::cmp::PartialEq::ne")
def m_eq(eng, call, args):
    meth = [x for x in call["norm_names"] if x.startswith("std::cmp::PartialEq::")][0].split("::")[-1]
    a = _alg_val(eng, call, args[0])
    b = _alg_val(eng, call, args[1])
    # &&T comparisons compare the referents: strip every reference level on both sides
    n = 0
    while a.op in ("ref", "refv", "refo") and b.op in ("ref", "refv", "refo") and n < 4:
        a, b = deref_value(eng, call["state"], a), deref_value(eng, call["state"], b)
        n += 1
    return mk("eq" if meth == "eq" else "ne", a, b)


# ---------------------------------------------------------------------------------------------------------
# encodings, formatting, serialisation
# ---------------------------------------------------------------------------------------------------------
@model("base64::Engine::encode")
def m_b64_encode(eng, call, args):
    e = val(eng, call, args[0])
    a = args[1]
    v = val(eng, call, a) if a.op in ("ref", "refv", "refo") else a
    return mk("b64enc", e, v)


@model("base64::Engine::decode")
def m_b64_decode(eng, call, args):
    e = val(eng, call, args[0])
    a = args[1]
    v = val(eng, call, a) if a.op in ("ref", "refv", "refo") else a
    ok = mk("b64_valid", e, v)
    return two_way("std::result::Result", [
        (0, "Ok", [mk("b64dec", e, v)], [(ok, "eq", 1)]),
        (1, "Err", [mk("b64_error", v)], [(ok, "eq", 0)]),
    ])


@model("bincode::serialize")
def m_bincode_ser(eng, call, args):
    v = val(eng, call, args[0])
    return two_way("std::result::Result", [
        (0, "Ok", [mk("bincode_ser", v)], []),
        (1, "Err", [mk("bincode_error")], []),
    ])


@model("bincode::deserialize")
def m_bincode_de(eng, call, args):
    v = val(eng, call, args[0])
    subs = call.get("substs") or []
    ty = subs[-1][0] if subs else "?"
    ok = mk("bincode_valid", v, ty)
    return two_way("std::result::Result", [
        (0, "Ok", [mk("bincode_de", v, ty)], [(ok, "eq", 1)]),
        (1, "Err", [mk("bincode_error", v)], [(ok, "eq", 0)]),
    ])


@model("std::fmt::rt::Argument::<'_>::new_display", "std::fmt::rt::Argument::<'_>::new_debug",
       "std::fmt::rt::Argument::<'_>::new_lower_hex")
def m_fmt_arg(eng, call, args):
    kind = call["norm_names"][0].split("::")[-1]
    v = val(eng, call, args[0])
    n = 0
    while is_t(v) and v.op in ("ref", "refv", "refo") and n < 4:
        v = val(eng, call, v)          # Display / Debug of &T are those of T
        n += 1
    return mk("fmtarg", kind, v)


@model("std::fmt::Arguments::<'a>::new")
def m_fmt_args_new(eng, call, args):
    tmpl = val(eng, call, args[0])
    arr = val(eng, call, args[1])
    return mk("fmtargs", tmpl, arr)


@model("std::fmt::Arguments::<'a>::from_str", "std::fmt::Arguments::<'a>::from_str_nonconst")
def m_fmt_from_str(eng, call, args):
    return mk("fmtargs", val(eng, call, args[0]) if args[0].op in ("ref", "refv") else args[0], mk("agg", "array"))


@model("std::fmt::format")
def m_fmt_format(eng, call, args):
    return mk("formatted", args[0])


@model("std::str::<impl str>::split")
def m_split(eng, call, args):
    return mk("iter", mk("split", val(eng, call, args[0]), args[1]), False, call["site"])


# ---------------------------------------------------------------------------------------------------------
# maps / sets
# ---------------------------------------------------------------------------------------------------------
@model("std::collections::BTreeSet::<T>::new", "std::collections::BTreeMap::<K, V>::new",
       "std::collections::HashMap::<K, V>::new")
def m_coll_new(eng, call, args):
    return mk("coll_new", call["norm_names"][0].split("::")[2])


@model("std::collections::BTreeSet::<T, A>::insert")
def m_set_insert(eng, call, args):
    old = val(eng, call, args[0])
    eng.assign_through(call, args[0], mk("set_insert", old, args[1]))
    return mk("set_inserted", old, args[1])


@model("std::collections::BTreeMap::<K, V, A>::insert")
def m_map_insert(eng, call, args):
    old = val(eng, call, args[0])
    eng.assign_through(call, args[0], mk("map_insert", old, args[1], args[2]))
    return mk("ext", "map_insert_old", old, args[1])


@model("std::collections::BTreeMap::<K, V, A>::get")
def m_map_get(eng, call, args):
    m = val(eng, call, args[0])
    k = val(eng, call, args[1])
    has = mk("map_has", m, k)
    return two_way("std::option::Option", [
        (0, "None", [], [(has, "eq", 0)]),
        (1, "Some", [mk("refv", mk("map_get", m, k))], [(has, "eq", 1)]),
    ])


@model("std::collections::BTreeMap::<K, V, A>::contains_key", "std::collections::HashMap::<K, V, S, A>::contains_key")
def m_map_contains_key(eng, call, args):
    m = val(eng, call, args[0])
    k = val(eng, call, args[1])
    return mk("map_has", m, k)


@model("std::collections::HashMap::<K, V, S, A>::entry", "std::collections::BTreeMap::<K, V, A>::entry")
def m_entry(eng, call, args):
    m = val(eng, call, args[0])
    E = "std::collections::hash_map::Entry"
    return two_way(E, [
        (0, "Occupied", [mk("agg", "occupied", args[0], args[1])], []),
        (1, "Vacant", [mk("agg", "vacant", args[0], args[1])], []),
    ])


@model("std::collections::hash_map::VacantEntry::<'a, K, V, A>::insert")
def m_vacant_insert(eng, call, args):
    e = args[0]
    if e.op == "agg" and e.args[0] == "vacant":
        mp, k = e.args[1], e.args[2]
        old = val(eng, call, mp)
        eng.assign_through(call, mp, mk("map_insert", old, k, args[1]))
    else:
        eng.note("VacantEntry::insert on unknown entry")
    return mk("refv", args[1])


@model("std::collections::hash_map::OccupiedEntry::<'a, K, V, A>::get_mut")
def m_occupied_get_mut(eng, call, args):
    e = val(eng, call, args[0])
    if e.op == "agg" and e.args[0] == "occupied":
        mp, k = e.args[1], e.args[2]
        if mp.op == "ref":
            return mk("ref", mp.args[0], mp.args[1] + (("mapval", k),))
    eng.note("OccupiedEntry::get_mut on unknown entry")
    return mk("ext", "get_mut", e)


# ---------------------------------------------------------------------------------------------------------
# bitvec 1.0 (source read for the partial ones: split_at / set / index panic when out of range)
# ---------------------------------------------------------------------------------------------------------
@model("bitvec::vec::BitVec::<T, O>::from_slice")
def m_bv_from_slice(eng, call, args):
    v = val(eng, call, args[0])
    return mk("bits_of", v)


@model("bitvec::vec::api::<impl bitvec::vec::BitVec<T, O>>::with_capacity", "bitvec::vec::api::<impl bitvec::vec::BitVec<T, O>>::new")
def m_bv_new(eng, call, args):
    if args:
        call["alloc_size"] = args[0]
    return mk("vec_new")


@model("bitvec::slice::api::<impl bitvec::slice::BitSlice<T, O>>::split_at")
def m_bv_split_at(eng, call, args):
    v = val(eng, call, args[0])
    n = eng.length(call["state"], v)
    call["pre"] = ("le", args[1], n)
    return mk("agg", "tuple", mk("refv", mk_slice(eng, call, v, Int(0), args[1])), mk("refv", mk_slice(eng, call, v, args[1], n)))


@model("bitvec::slice::api::<impl bitvec::slice::BitSlice<T, O>>::split_last")
def m_bv_split_last(eng, call, args):
    v = val(eng, call, args[0])
    n = eng.length(call["state"], v)
    c = binop("Eq", n, Int(0), "usize")
    last = mk("refv", mk("index", v, binop("Sub", n, Int(1), "usize")))
    rest = mk("refv", mk_slice(eng, call, v, Int(0), binop("Sub", n, Int(1), "usize")))
    return two_way("std::option::Option", [
        (0, "None", [], [(c, "eq", 1)]),
        (1, "Some", [mk("agg", "tuple", last, rest)], [(c, "eq", 0)]),
    ])


@model("bitvec::slice::api::<impl bitvec::slice::BitSlice<T, O>>::starts_with")
def m_bv_starts_with(eng, call, args):
    a = val(eng, call, args[0])
    b = val(eng, call, args[1]) if args[1].op in ("ref", "refv", "refo") else args[1]
    return mk("starts_with", a, b)


@model("bitvec::slice::BitSlice::<T, O>::set")
def m_bv_set(eng, call, args):
    old = val(eng, call, args[0])
    call["pre"] = ("lt", args[1], eng.length(call["state"], old))
    eng.assign_through(call, args[0], mk("bit_set", old, args[1], args[2]))
    return mk("unit")


@model("std::boxed::Box::<T>::new_uninit", "std::boxed::Box::<T>::new")
def m_box_new(eng, call, args):
    loc = ("box", call["site"])
    call["state"][loc] = args[0] if args else mk("undef", loc)
    return mk("boxptr", loc)


@model("std::boxed::box_assume_init_into_vec_unsafe", "std::slice::<impl [T]>::into_vec", "std::boxed::Box::<T, A>::assume_init")
def m_box_into_vec(eng, call, args):
    b = args[0]
    if b.op == "boxptr":
        v = call["state"].get(b.args[0])
        if v is not None:
            return v
    return mk("ext", "box_into_vec", b)


@model("serde::Serializer::serialize_str")
def m_serialize_str(eng, call, args):
    v = val(eng, call, args[1]) if args[1].op in ("ref", "refv", "refo") else args[1]
    return mk("serde_str", v)


@model("serde::de::Error::custom", "serde::ser::Error::custom")
def m_serde_custom(eng, call, args):
    return mk("serde_error", *args)


@model("std::slice::<impl [T]>::split_at", "std::slice::<impl [T]>::split_at_mut")
def m_split_at(eng, call, args):
    v = val(eng, call, args[0])
    n = eng.length(call["state"], v)
    call["pre"] = ("le", args[1], n)
    return mk("agg", "tuple", mk("refv", mk_slice(eng, call, v, Int(0), args[1])), mk("refv", mk_slice(eng, call, v, args[1], n)))


@model("std::slice::<impl [T]>::split_at_checked", "std::slice::<impl [T]>::split_at_mut_checked")
def m_split_at_checked(eng, call, args):
    v = val(eng, call, args[0])
    n = eng.length(call["state"], v)
    okc = mk("le", args[1], n)
    pair = mk("agg", "tuple", mk("refv", mk_slice(eng, call, v, Int(0), args[1])), mk("refv", mk_slice(eng, call, v, args[1], n)))
    return two_way("std::option::Option", [(0, "None", [], [(okc, "eq", 0)]), (1, "Some", [pair], [(okc, "eq", 1)])])


@model("std::slice::<impl [T]>::split_first", "std::slice::<impl [T]>::split_last")
def m_split_first_last(eng, call, args):
    v = val(eng, call, args[0])
    n = eng.length(call["state"], v)
    c = binop("Eq", n, Int(0), "usize")
    which = call["norm_names"][0].split("::")[-1]
    from .sym import index as sym_index
    if which == "split_first":
        e, rest = sym_index(v, Int(0)), mk_slice(eng, call, v, Int(1), n)
    else:
        last = binop("Sub", n, Int(1), "usize")
        e, rest = sym_index(v, last), mk_slice(eng, call, v, Int(0), last)
    pair = mk("agg", "tuple", mk("refv", e), mk("refv", rest))
    return two_way("std::option::Option", [(0, "None", [], [(c, "eq", 1)]), (1, "Some", [pair], [(c, "eq", 0)])])


@model("std::slice::<impl [T]>::first", "std::slice::<impl [T]>::last")
def m_first_last(eng, call, args):
    v = val(eng, call, args[0])
    n = eng.length(call["state"], v)
    c = binop("Eq", n, Int(0), "usize")
    which = call["norm_names"][0].split("::")[-1]
    from .sym import index as sym_index
    e = sym_index(v, Int(0)) if which == "first" else sym_index(v, binop("Sub", n, Int(1), "usize"))
    return two_way("std::option::Option", [(0, "None", [], [(c, "eq", 1)]), (1, "Some", [mk("refv", e)], [(c, "eq", 0)])])


@model("std::collections::hash_map::Entry::<'a, K, V>::or_default", "std::collections::hash_map::Entry::<'a, K, V>::or_insert",
       "std::collections::hash_map::Entry::<'a, K, V>::or_insert_with",
       "std::collections::hash_map::Entry::<'a, K, V, A>::or_default", "std::collections::hash_map::Entry::<'a, K, V, A>::or_insert",
       "std::collections::hash_map::Entry::<'a, K, V, A>::or_insert_with",
       "std::collections::btree_map::Entry::<'a, K, V, A>::or_default", "std::collections::btree_map::Entry::<'a, K, V, A>::or_insert",
       "std::collections::btree_map::Entry::<'a, K, V, A>::or_insert_with")
def m_entry_or(eng, call, args):
    """&mut V for the key of the entry, inserting the default / given value when vacant"""
    e = args[0]
    meth = call["norm_names"][0].split("::")[-1]
    mp = k = None
    if e.op == "enum":
        for a in e.args[1]:
            if a[2] and a[2][0].op == "agg" and a[2][0].args[0] in ("occupied", "vacant"):
                mp, k = a[2][0].args[1], a[2][0].args[2]
    if mp is None or mp.op != "ref":
        eng.note("Entry::%s on an unknown entry" % meth)
        return mk("ext", "entry_" + meth, *args)
    init = mk("vec_new") if meth == "or_default" else (args[1] if meth == "or_insert" else eng.invoke_value(call, args[1], [], tag="#oiw"))
    loc, path = mp.args[0], mp.args[1]
    cur = eng.load(call["state"], loc, path + (("mapval", k),))
    # the slot holds the existing value or the freshly inserted default
    slot = eng.join_values(("entry_or", call["site"]), {"occupied": cur, "vacant": init if init is not None else mk("vec_new")})
    old = eng.load(call["state"], loc, path)
    eng.store(call["state"], loc, path, mk("map_entry_or", old, k))
    eng.store(call["state"], loc, path + (("mapval", k),), slot)
    call["entry_or"] = (mp, k)
    return mk("ref", loc, path + (("mapval", k),))


@pattern(r"^std::ops::(BitXor|BitOr|BitAnd|Shl|Shr|Not|Rem|Div)::\w+$")
def m_int_bitop(eng, call, args):
    """operator traits on primitive integers / references to them (e.g. `a ^ b` inside a closure over &u8)"""
    names = " ".join(call.get("norm_names", []))
    vals = [deref_value(eng, call["state"], a) if a.op in ("ref", "refv", "refo") else a for a in args]
    op = re.search(r"std::ops::(\w+)::", names).group(1).lower()
    if op in ("rem", "div"):
        call["pre"] = ("nonzero", vals[1]) if len(vals) > 1 else None
    return mk("intop_" + op, *vals)


@model("std::vec::Vec::<T, A>::dedup", "std::vec::Vec::<T, A>::dedup_by", "std::vec::Vec::<T, A>::dedup_by_key",
       "std::vec::Vec::<T, A>::retain", "std::vec::Vec::<T, A>::retain_mut", "std::vec::Vec::<T, A>::truncate",
       "std::slice::<impl [T]>::sort", "std::slice::<impl [T]>::sort_by", "std::slice::<impl [T]>::sort_by_key",
       "std::slice::<impl [T]>::sort_unstable", "std::slice::<impl [T]>::sort_unstable_by", "std::slice::<impl [T]>::reverse")
def m_vec_subset(eng, call, args):
    """in-place operations that keep a sub-multiset of the elements (possibly reordered): every element of the result
    is an element of the old value and the length does not grow"""
    old = val(eng, call, args[0])
    meth = call["norm_names"][0].split("::")[-1]
    extra = []
    if len(args) > 1 and args[1].op == "agg" and args[1].args[0].startswith("closure:"):
        e = mk("elem", old, call["site"])
        n = 2 if meth == "dedup_by" else 1
        r = eng.invoke_value(call, args[1], [mk("refv", e)] * n, tag="#" + meth)
        if r is not None:
            extra.append(r)
    eng.assign_through(call, args[0], mk("subset", old, meth, *extra))
    return mk("unit")


@model("std::slice::<impl [T]>::chunks_exact", "std::slice::<impl [T]>::chunks")
def m_chunks(eng, call, args):
    v = val(eng, call, args[0])
    call["pre"] = ("nonzero", args[1])
    meth = call["norm_names"][0].split("::")[-1]
    # every chunk yielded by chunks_exact has exactly n elements
    return mk("iter", mk("chunks", v, args[1], meth), True, call["site"])   # yields references to sub-slices


@model("std::ops::Fn::call", "std::ops::FnMut::call_mut", "std::ops::FnOnce::call_once")
def m_fn_call(eng, call, args):
    """calling a closure / fn value through the Fn* traits: arguments arrive as one tuple"""
    f = args[0]
    tup = args[1] if len(args) > 1 else mk("unit")
    if tup.op == "agg" and tup.args[0] == "tuple":
        cargs = list(tup.args[1:])
    elif tup.op == "unit":
        cargs = []
    else:
        cargs = [tup]
    fv = f
    if fv.op in ("ref", "refv", "refo"):
        fv = deref_value(eng, call["state"], fv)
    r = eng.invoke_value(call, fv, cargs, tag="#call")
    return r


@model("base64::Engine::decode_slice", "base64::Engine::decode_vec")
def m_b64_decode_slice(eng, call, args):
    """checked variants: report a too-small output buffer / invalid input through Err"""
    e = val(eng, call, args[0])
    a = args[1]
    v = val(eng, call, a) if a.op in ("ref", "refv", "refo") else a
    ok = mk("b64_valid", e, v)
    fits = mk("b64_fits", v, args[2] if len(args) > 2 else mk("unit"))
    if len(args) > 2:
        old = val(eng, call, args[2])
        eng.assign_through(call, args[2], mk("b64dec_into", e, v, old))
    return two_way("std::result::Result", [
        (0, "Ok", [mk("b64dec_len", e, v)], [(ok, "eq", 1), (fits, "eq", 1)]),
        (1, "Err", [mk("b64_error", v)], []),
    ])


@model("base64::Engine::decode_slice_unchecked")
def m_b64_decode_slice_unchecked(eng, call, args):
    """base64 0.22 documents: panics if the output slice is too small for the decoded input"""
    e = val(eng, call, args[0])
    a = args[1]
    v = val(eng, call, a) if a.op in ("ref", "refv", "refo") else a
    out = val(eng, call, args[2])
    call["pre"] = ("le", mk("b64_decoded_len_estimate", v), eng.length(call["state"], out))
    eng.assign_through(call, args[2], mk("b64dec_into", e, v, out))
    ok = mk("b64_valid", e, v)
    return two_way("std::result::Result", [
        (0, "Ok", [mk("b64dec_len", e, v)], [(ok, "eq", 1)]),
        (1, "Err", [mk("b64_error", v)], [(ok, "eq", 0)]),
    ])


@model("serde::Deserialize::deserialize", "serde::Deserializer::deserialize_str", "serde::Deserializer::deserialize_bytes")
def m_serde_deserialize(eng, call, args):
    """serde deserializers report malformed input through Err (trusted: serde / the format crate)"""
    v = mk("serde_de", *args)
    return as_enum(v, "std::result::Result", RES)


@model("std::iter::Iterator::zip")
def m_zip(eng, call, args):
    b = args[1]
    if b.op in ("ref", "refv", "refo"):
        b = mk("iter", val(eng, call, b), True, call["site"] + "z")
    elif b.op not in ("iter", "range_iter", "mapped", "filtered", "cloned_iter", "adapted", "enumerated", "zipped"):
        b = mk("iter", b, False, call["site"] + "z")
    return mk("zipped", args[0], b)
