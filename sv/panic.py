"""PANIC: inventory x taint x discharge of potential failure sites reachable from an entry point.

Inventory (from the SYM events of one root analysis, all inlined frames): MIR Assert terminators (overflow, bounds,
division), diverging calls (panic_fmt, begin_panic, ...), calls to partial external functions whose model recorded
a precondition (`pre`), unmodelled external #[track_caller] callees (fail closed), allocation sizes, Strobe `more`
flags.  A site is *in scope* when its failure condition depends on an untrusted parameter of the entry.  Every
in-scope site must be *discharged*: the facts on dominating edges (closed over inlined callees) together with the
negated precondition are infeasible (Fourier-Motzkin over linear forms), or a named structural rule applies
(IDIOM-NEQ, INV-UNIFORM).  Nothing is allow-listed by location.
"""
from . import lin
from . import query as Q
from .sym import int_range
from .terms import PHI, Term, is_t, mk, show

# external callees that carry #[track_caller] but cannot fail for the way they are used here (reason each)
TC_TOTAL = {
    "std::ops::FromResidual::from_residual": "Result/Option residual conversion: track_caller only for error location",
    "std::ops::Index::index": "modelled (precondition recorded)",
    "std::ops::IndexMut::index_mut": "modelled (precondition recorded)",
    "std::slice::<impl [T]>::copy_from_slice": "modelled (precondition recorded)",
    "std::option::Option::<T>::unwrap": "modelled", "std::option::Option::<T>::expect": "modelled",
    "std::result::Result::<T, E>::unwrap": "modelled", "std::result::Result::<T, E>::expect": "modelled",
    "std::vec::Vec::<T, A>::remove": "modelled (precondition recorded)",
    "std::slice::<impl [T]>::split_at": "modelled (precondition recorded)",
    "std::vec::Vec::<T, A>::push": "only capacity overflow (allocation failure: out of scope, DESIGN section 6)",
    "std::vec::Vec::<T, A>::extend_from_slice": "only capacity overflow",
    "std::iter::Extend::extend": "only capacity overflow",
    "std::vec::from_elem": "allocation size checked separately",
    "std::vec::Vec::<T>::with_capacity": "allocation size checked separately",
    "std::slice::<impl [T]>::to_vec": "allocation proportional to an existing slice",
    "std::slice::<impl [T]>::concat": "allocation proportional to existing slices",
    "std::iter::Iterator::collect": "allocation proportional to the iterator",
    "std::clone::Clone::clone": "allocation proportional to the value",
    "std::convert::Into::into": "workspace From impl analysed / identity",
    "std::convert::From::from": "identity-like conversions",
    "std::iter::Iterator::map": "lazy adaptor", "std::iter::Iterator::filter": "lazy adaptor",
    "std::iter::Iterator::fold": "closure analysed", "std::iter::Iterator::next": "total",
    "std::string::ToString::to_string": "total", "std::borrow::ToOwned::to_owned": "total",
    "std::fmt::format": "formatting of values that implement Display/Debug totally",
    "std::boxed::Box::<T>::new_uninit": "allocation of a fixed-size array (vec! macro)",
    "std::boxed::Box::<T>::new": "fixed-size allocation",
    "std::boxed::box_assume_init_into_vec_unsafe": "vec! macro tail",
}

UB_CHECKS = ("MisalignedPointerDereference", "NullPointerDereference")


class Ob:
    __slots__ = ("kind", "key", "fn", "at", "frame", "block", "terms", "goal", "desc", "status", "why", "scope_deps", "debug_only")

    def __init__(self, kind, ev, terms, goal, desc):
        self.kind = kind
        self.fn = ev["fn"]
        self.at = ev["at"]
        self.frame = ev["frame"]
        self.block = ev["block"]
        self.terms = terms
        self.goal = goal
        self.desc = desc
        self.status = None
        self.why = ""
        self.scope_deps = set()
        # inside the expansion of debug_assert!/debug_assert_eq!/debug_assert_ne!: exists only with cfg(debug_assertions)
        self.debug_only = "macro:debug_assert" in (ev.get("x") or "")
        callee = (ev.get("callee") or ev.get("mk") or "").split("::")[-1]
        self.key = None  # assigned by collect()


def _usize_max(bits):
    return 2 ** bits - 1


def collect(eng, entry_name):
    """all potential failure sites of one root analysis"""
    obs = []
    notes = []
    for k, ev in eng.events.items():
        if ev["kind"] == "assert":
            mk_ = ev["mk"]
            if any(u in mk_ for u in UB_CHECKS):
                continue    # compiler-inserted debug checks on freshly allocated Box pointers: not input dependent
            cond = ev["cond"]
            if cond.op == "int":
                if (cond.args[0] == 1) == bool(ev["expected"]):
                    continue   # constant-true assertion
            if mk_.startswith("overflow:"):
                op = mk_.split(":")[1]
                ovf = Q.find_all(cond, lambda t: t.op == "ovf")
                ty = ovf[0].args[3] if ovf else "usize"
                a, b = (ev["mops"] + [None, None])[:2]
                obs.append(Ob("overflow", ev, [a, b], ("ovf", op.lower(), a, b, ty), "%s of %s" % (op, ty)))
            elif mk_ == "bounds":
                ln, ix = ev["mops"]
                obs.append(Ob("bounds", ev, [ln, ix], ("lt", ix, ln), "index < len"))
            elif mk_ in ("div0", "rem0"):
                obs.append(Ob("div0", ev, [cond], ("true", cond, ev["expected"]), "divisor != 0"))
            else:
                obs.append(Ob("assert", ev, [cond], ("true", cond, ev["expected"]), mk_))
        elif ev["kind"] == "call":
            callee = ev.get("callee") or "?"
            if ev["diverges"]:
                obs.append(Ob("panic", ev, [], ("unreachable",), "explicit panic / diverging call %s" % callee.split("::")[-1]))
                continue
            pre = ev.get("pre")
            if pre:
                kind = pre[0]
                terms = [x for x in pre[1:] if is_t(x)]
                obs.append(Ob("pre:" + kind, ev, terms, pre, "%s precondition of %s" % (kind, callee.split("::")[-1])))
            elif not ev.get("local") and not ev.get("inlined") and not ev.get("model"):
                dn = ev.get("dname") or callee
                from .models import norm
                nd = norm(dn)
                std = nd.startswith(("std::", "<std::", "core::", "alloc::")) or " as std::" in nd
                if ev.get("tc") and nd not in TC_TOTAL:
                    obs.append(Ob("partial?", ev, list(ev["args"]), ("unknown",),
                                  "unmodelled #[track_caller] external callee %s" % nd))
                elif not std:
                    # functions of other crates are trusted only through an explicit model: a new use of an unmodelled
                    # third-party API on input-dependent data fails closed
                    obs.append(Ob("unmodelled-external", ev, list(ev["args"]), ("unknown",),
                                  "external callee %s has no model (may panic for some input)" % nd))
            sm = ev.get("strobe_more")
            if sm is not None and not (sm.op == "int" and sm.args[0] == 0):
                obs.append(Ob("strobe-more", ev, [sm], ("const0", sm), "Strobe `more` flag must be the constant false"))
            al = ev.get("alloc_size")
            if al is not None and al.op != "int":
                obs.append(Ob("alloc", ev, [al], ("alloc", al), "allocation size of %s" % callee.split("::")[-1]))
    # stable keys: entry / function / kind / ordinal among same (fn, kind, callee) in source order
    obs.sort(key=lambda o: (o.fn, o.at, o.kind, o.desc))
    counts = {}
    for o in obs:
        what = o.desc.split(" of ")[-1] if " of " in o.desc else o.desc
        if o.kind == "pre:variant" and what == "expect":
            what = "unwrap"          # unwrap() and expect(..) are the same failure site (keys must survive that rewrite)
        base = "%s>%s#%s:%s" % (entry_name, o.fn, o.kind, what)
        n = counts.get((base, o.frame), 0)
        counts[(base, o.frame)] = n + 1
        o.key = base + ("" if n == 0 else ".%d" % n)
    return obs


def in_scope(o, untrusted, eng):
    """does the failure condition depend on untrusted input?"""
    deps = set()
    for t in o.terms:
        if is_t(t):
            deps |= Q.params(Q.leaves_cd(eng, t))
    if o.kind == "panic":
        # condition = the facts under which the panic block is reached
        for f in eng.facts_at(o.frame, o.block):
            deps |= Q.params(Q.leaves(f[0]))
    o.scope_deps = deps
    for p in deps:
        for u in untrusted:
            if p == u or p.startswith(u + "."):
                return True
    return False


def contradictory(facts):
    seen = {}
    for t, rel, v in facts:
        if rel == "eq":
            if t.id in seen and seen[t.id] != v:
                return True
            seen[t.id] = v
            if t.op == "int" and t.args[0] != v:
                return True
    return False


def make_ctx(eng, facts, usize_bits):
    L = lin.Ctx(usize_bits)
    L.repr_len = eng.size_of("share_ff::FpRepr", "star_sharks")        # width of a field element encoding, from the ADT
    for f in facts:
        L.add_fact(f)
        # equalities between enum-wrapped lengths: eq(Some(a), Some(b)) == 1  =>  a == b  (used by INV-UNIFORM)
    return L


def _goal_le(L, a, b, strict=False):
    """a <= b  (or a < b): returns the Lin that must be <= 0"""
    e = L.lin(a).add(L.lin(b), -1)
    if strict:
        e = e.add(lin.Lin(1))
    return e


def discharge(eng, o, usize_bits=64):
    facts = Q.closure(eng, eng.facts_at(o.frame, o.block))
    if contradictory(facts):
        o.status, o.why = True, "site unreachable: contradictory dominating facts"
        return True
    L = make_ctx(eng, facts, usize_bits)
    g = o.goal
    kind = g[0]
    goals = []
    if kind == "unreachable":
        if lin.inconsistent(L):
            o.status, o.why = True, "site unreachable: dominating conditions are infeasible"
            return True
        # INV-PAIRED (exact form): |vector| == |set| when the single push runs exactly on the iterations whose insertion
        # succeeded - discharges assertions such as debug_assert_eq!(values.len(), keys.len())
        eqp = _inv_paired(eng, facts, [], exact=True)
        if eqp:
            L5 = make_ctx(eng, facts, usize_bits)
            for (va, ka) in eqp:
                L5.eqs.append(L5.lin(va).add(L5.lin(ka), -1))
            if lin.inconsistent(L5):
                o.status = True
                o.why = ("INV-PAIRED (exact): the vector is pushed to exactly on the iterations whose set insertion succeeded "
                         "(both empty before the loop), so the two lengths are equal and the failing branch is infeasible")
                return True
        # INV-COUNT: lengths of vectors filled by a loop that ran to completion
        lens_in_facts = [f[0] for f in facts if Q.contains(f[0], lambda x: x.op == "len" and x.args[0].op == "phi")]
        eqc = _inv_count(eng, o, lens_in_facts)
        if eqc:
            L6 = make_ctx(eng, facts, usize_bits)
            for (lv, n) in eqc:
                L6.eqs.append(L6.lin(lv).add(L6.lin(n), -1))
            if lin.inconsistent(L6):
                o.status = True
                o.why = "INV-COUNT: the vector grows by a constant amount per iteration of a loop that ran to completion; the failing branch is infeasible"
                return True
        o.status, o.why = False, "an explicit panic is reachable under input-dependent conditions: %s" % sorted(Q.show_fact(f, 2)[:80] for f in facts)[:4]
        return False
    if kind == "range":
        _, lo, hi, n = g
        goals = [_goal_le(L, lo, hi), _goal_le(L, hi, n)]
    elif kind == "lt":
        goals = [_goal_le(L, g[1], g[2], strict=True)]
    elif kind == "le":
        goals = [_goal_le(L, g[1], g[2])]
    elif kind == "len_eq":
        goals = [_goal_le(L, g[1], g[2]), _goal_le(L, g[2], g[1])]
    elif kind == "ovf":
        _, op, a, b, ty = g
        r = int_range(ty, usize_bits)
        if r is None or a is None or b is None:
            o.status, o.why = False, "overflow check on unsupported type %s" % ty
            return False
        if op == "add":
            goals = [L.lin(a).add(L.lin(b)).add(lin.Lin(r[1]), -1), lin.Lin(r[0]).add(L.lin(a).add(L.lin(b)), -1)]
        elif op == "sub":
            goals = [lin.Lin(r[0]).add(L.lin(a).add(L.lin(b), -1), -1), L.lin(a).add(L.lin(b), -1).add(lin.Lin(r[1]), -1)]
        elif op == "mul":
            la, lb = L.lin(a), L.lin(b)
            if la.is_const():
                prod = lb.scale(la.c)
            elif lb.is_const():
                prod = la.scale(lb.c)
            else:
                o.status, o.why = False, "non-linear multiplication"
                return False
            goals = [prod.add(lin.Lin(r[1]), -1), lin.Lin(r[0]).add(prod, -1)]
        else:
            o.status, o.why = False, "unsupported checked operation %s" % op
            return False
    elif kind == "true":
        cond, expected = g[1], g[2]
        want = 1 if expected else 0
        nf = Q.norm_fact((cond, "eq", want))
        if nf in facts:
            o.status, o.why = True, "condition established by a dominating branch"
            return True
        # comparison: translate
        t, rel, v = nf
        if t.op in ("ne", "eq", "lt", "le", "gt", "ge") and len(t.args) == 2:
            L2 = make_ctx(eng, facts, usize_bits)
            neg = Q.norm_fact((t, "eq", 1 - v))
            L2.add_fact(neg)
            if t.op in ("eq", "ne") and ((t.op == "eq") == (neg[2] == 0)):
                # negation is a disequality a != b : infeasible iff a == b entailed (both directions)
                a, b = t.args
                if lin.entails(L, _goal_le(L, a, b)) and lin.entails(L, _goal_le(L, b, a)):
                    o.status, o.why = True, "equality entailed"
                    return True
            elif lin.infeasible(L2.constraints()):
                o.status, o.why = True, "negated condition infeasible"
                return True
        o.status, o.why = False, "assertion condition %s not established" % show(cond, 3)
        return False
    elif kind == "variant":
        _, v, want = g
        return _discharge_variant(eng, o, facts, L, v, want, usize_bits)
    elif kind == "ct_valid":
        v = g[1]
        if any(t.op == "ct_valid" and t.args[0] is v and rel == "eq" and val == 1 for t, rel, val in facts):
            o.status, o.why = True, "validity established by a dominating branch"
            return True
        # IDIOM-NEQ: (a - b).invert() is valid iff a != b
        if v.op == "fp_invert" and v.args[0].op == "alg_sub":
            a, b = v.args[0].args
            for t, rel, val in facts:
                if t.op == "eq" and rel == "eq" and val == 0 and ((t.args[0] is a and t.args[1] is b) or (t.args[0] is b and t.args[1] is a)):
                    o.status, o.why = True, "IDIOM-NEQ: operands of the inverted difference passed a `!=` filter"
                    return True
        o.status, o.why = False, "CtOption unwrapped without an established validity (value %s)" % show(v, 3)
        return False
    elif kind == "nonzero":
        v = g[1]
        if v.op == "int":
            o.status, o.why = (v.args[0] != 0), "constant operand"
            return o.status
        goals = [lin.Lin(1).add(L.lin(v), -1)]
    elif kind == "const0":
        o.status, o.why = False, "Strobe `more` flag is not the constant false"
        return False
    elif kind == "alloc":
        return _discharge_alloc(eng, o, L, g[1])
    elif kind == "unknown":
        o.status, o.why = False, o.desc
        return False
    else:
        o.status, o.why = False, "unknown obligation kind %s" % kind
        return False
    bad = [i for i, gl in enumerate(goals) if not lin.entails(L, gl)]
    if not bad:
        o.status, o.why = True, "entailed by %d dominating facts (Fourier-Motzkin)" % len(facts)
        return True
    # INV-ALLOC: a Vec<T> / slice of n elements occupies n * size_of::<T>() <= isize::MAX bytes (allocation invariant of
    # the language), so n <= isize::MAX / size_of::<T>() for every measured length whose element type is known
    added = 0
    for gl in goals:
        for a in list(gl.t):
            if is_t(a) and a.op == "len" and a.id in eng.len_elem:
                ty, crate = eng.len_elem[a.id]
                sz = eng.size_of(ty, crate)
                if sz:
                    L.side.append(lin.atom(a).scale(sz).add(lin.Lin(2 ** (usize_bits - 1) - 1), -1))
                    added += 1
    if added and all(lin.entails(L, gl) for gl in goals):
        o.status, o.why = True, "INV-ALLOC: the measured Vec / slice occupies len * size_of(element) <= isize::MAX bytes; then entailed"
        return True
    # INV-UNIFORM
    if kind == "lt" and _inv_uniform(eng, o, g[1], g[2]):
        return True
    # INV-COUNT: a vector that starts empty and receives exactly one push per iteration of a counted loop lo..hi has
    # hi - lo elements once the loop has run to completion
    if kind in ("lt", "range", "le"):
        eqs = _inv_count(eng, o, [x for x in g[1:] if is_t(x)])
        if eqs:
            L4 = make_ctx(eng, facts, usize_bits)
            for (lv, n) in eqs:
                L4.eqs.append(L4.lin(lv).add(L4.lin(n), -1))
            goals4 = _goals_for(L4, g, usize_bits)
            if goals4 is not None and all(lin.entails(L4, gl) for gl in goals4):
                o.status = True
                o.why = "INV-COUNT: the indexed vector is filled by one unconditional push per iteration of a counted loop that runs to completion"
                return True
    # INV-PAIRED: |vector| >= |set| when every successful set insertion is followed by a push (same loop, both empty before)
    if kind in ("range", "ovf", "lt", "le"):
        extra = _inv_paired(eng, facts, [x for x in g[1:] if is_t(x)])
        if extra:
            L3 = make_ctx(eng, facts, usize_bits)
            for (va, ka) in extra:
                L3.side.append(L3.lin(ka).add(L3.lin(va), -1))      # |K| <= |V|
            # rebuild the same goals in the extended context
            o2 = Ob.__new__(Ob)
            goals3 = _goals_for(L3, g, usize_bits)
            if goals3 is not None and all(lin.entails(L3, gl) for gl in goals3):
                o.status = True
                o.why = ("INV-PAIRED: every successful insertion into the distinctness set is followed by a push into the indexed "
                         "vector (same loop, both start empty), so the vector is at least as long as the set; then entailed by the count guard")
                return True
    o.status = False
    o.why = "cannot establish %s (goal %s) from dominating facts %s" % (
        o.desc, [show(x, 3) for x in g[1:] if is_t(x)], sorted(Q.show_fact(f, 2)[:70] for f in facts if f[0].op in ("lt", "le", "eq", "ge", "gt", "range_ok", "no_ovf"))[:6])
    return False


def _goals_for(L, g, usize_bits):
    kind = g[0]
    if kind == "range":
        return [_goal_le(L, g[1], g[2]), _goal_le(L, g[2], g[3])]
    if kind == "lt":
        return [_goal_le(L, g[1], g[2], strict=True)]
    if kind == "le":
        return [_goal_le(L, g[1], g[2])]
    if kind == "ovf":
        _, op, a, b, ty = g
        r = int_range(ty, usize_bits)
        if r is None or a is None or b is None:
            return None
        if op == "add":
            return [L.lin(a).add(L.lin(b)).add(lin.Lin(r[1]), -1), lin.Lin(r[0]).add(L.lin(a).add(L.lin(b)), -1)]
        if op == "sub":
            return [lin.Lin(r[0]).add(L.lin(a).add(L.lin(b), -1), -1), L.lin(a).add(L.lin(b), -1).add(lin.Lin(r[1]), -1)]
    return None


def _alt_facts(eng, alt):
    fs = set(alt[3])
    if alt[4]:
        sets = [set(eng.facts_at(fk, b)) for (fk, b) in alt[4]]
        fs |= set.intersection(*sets) if sets else set()
    return Q.closure(eng, fs)


def _discharge_variant(eng, o, facts, L, v, want, usize_bits):
    for t, rel, val in facts:
        if t.op == "discr" and t.args[0] is v and rel == "eq" and val == want:
            o.status, o.why = True, "variant established by a dominating match / is_ok / is_some test"
            return True
    if v.op == "enum":
        bad = [a for a in v.args[1] if a[0] != want]
        if not bad:
            o.status, o.why = True, "value has no failing alternative"
            return True
        for a in bad:
            af = _alt_facts(eng, a)
            allf = set(facts) | af
            if contradictory(allf):
                continue
            L2 = make_ctx(eng, allf, usize_bits)
            if lin.inconsistent(L2):
                continue
            o.status, o.why = False, "failing alternative `%s` is possible here (its conditions %s are consistent with the dominating facts)" % (
                a[1], sorted(Q.show_fact(f, 2)[:70] for f in af)[:3])
            return False
        o.status, o.why = True, "every failing alternative contradicts the dominating facts"
        return True
    # opaque enum value: need an explicit discriminant fact
    for t, rel, val in facts:
        if t.op == "discr" and t.args[0] is v and rel == "eq" and val == want:
            o.status, o.why = True, "variant established by a dominating match"
            return True
    o.status, o.why = False, "unwrap/expect on a value not known to be the success variant: %s" % show(v, 3)
    return False


def _discharge_alloc(eng, o, L, size):
    """allocation size must be bounded by a constant or by the length of existing data"""
    e = L.lin(size)
    bad = []
    for a, c in e.t.items():
        if a.op in ("len", "len_iter"):
            continue
        # a decoded header / arbitrary integer as allocation size: must be bounded by some length via facts
        bounded = False
        for b in list(e.t) + [x for f in [] for x in ()]:
            pass
        cands = [x for x in Q.find_all(size, lambda t: t.op == "len")]
        for f in Q.closure(eng, eng.facts_at(o.frame, o.block)):
            cands += Q.find_all(f[0], lambda t: t.op == "len")
        for ln in cands:
            if lin.entails(L, lin.atom(a).add(L.lin(ln).scale(2), -1)):
                bounded = True
                break
        if not bounded:
            bad.append(show(a, 3))
    if bad:
        o.status, o.why = False, "allocation size depends on %s, which is not bounded by any input length" % bad
        return False
    o.status, o.why = True, "allocation size is linear in lengths of existing data"
    return True


def _inv_uniform(eng, o, idx, ln):
    """INV-UNIFORM: s < len(C[0].y) used to index C[i].y, where every element stored into C passed the
    `same y-length as the first` comparison at the (single) write site."""
    if not (is_t(idx) and idx.op == "range_elem" and ln.op == "len"):
        return False
    hi = idx.args[1]
    if hi.op != "len":
        return False
    a, b = hi.args[0], ln.args[0]      # field(index(C,0),k)  and  field(elem(C),k)
    if not (a.op == "field" and b.op == "field" and a.args[1] == b.args[1]):
        return False
    k = a.args[1]
    ca, cb = a.args[0], b.args[0]
    if not (ca.op == "index" and ca.args[1].op == "int" and ca.args[1].args[0] == 0 and cb.op in ("elem", "deref")):
        return False
    while cb.op == "deref":
        cb = cb.args[0]
    if cb.op != "elem":
        return False
    coll_a, coll_b = ca.args[0], cb.args[0]
    base_a = coll_a.args[0] if coll_a.op == "slice" else coll_a
    base_b = coll_b.args[0] if coll_b.op == "slice" else coll_b
    while base_a.op == "subset":
        base_a = base_a.args[0]
    while base_b.op == "subset":
        base_b = base_b.args[0]
    if base_a is not base_b or base_a.op != "phi":
        return False
    # the collection is a vector accumulated by pushes in some frame: find the push sites
    key = base_a.args[0]
    site = Q.phi_site(eng, key)
    if site is None:
        return False
    fkey = site[0]
    pushes = [e for e in eng.events.values() if e["kind"] == "call" and e["frame"] == fkey and (e.get("callee") or "").endswith("::push")
              and e["args"][0].op == "ref" and e["args"][0].args[0] == key[2]]
    if len(pushes) != 1:
        return False
    p = pushes[0]
    el = p["argv"][1]
    fs = Q.closure(eng, eng.facts_at(p["frame"], p["block"]))
    # fact: eq(Some(len(field(el,k))), SL) == 1 where SL is loop-carried and only ever set from None to Some(len(first.y))
    for t, rel, v in fs:
        if t.op == "eq" and rel == "eq" and v == 1:
            for x, y in ((t.args[0], t.args[1]), (t.args[1], t.args[0])):
                lx = x.args[1][0][2][0] if x.op == "enum" and len(x.args[1]) == 1 and x.args[1][0][2] else x
                sy = y
                if x.op != "enum" and y.op == "payload" and y.args[1:] == (1, 0):
                    sy = y.args[0]          # len == *cell.get_or_insert(len): compared with the payload of the set-once cell
                if lx.op == "len" and lx.args[0].op == "field" and lx.args[0].args[1] == k and \
                        _same_elem(lx.args[0].args[0], el) and sy.op != "phi" and _loop_invariant(eng, y, fkey):
                    # compared with a value that is the same on every iteration (e.g. the peeked first element's length,
                    # computed before the loop): all stored elements share that one length
                    o.status = True
                    o.why = ("INV-UNIFORM: every element stored into the indexed collection passed `y.len() == L` at its single "
                             "write site (%s) for a loop-invariant L" % p["at"])
                    return True
                if lx.op == "len" and lx.args[0].op == "field" and lx.args[0].args[1] == k and x.op != "enum" and \
                        _same_elem(lx.args[0].args[0], el) and sy.op == "phi" and _first_or_self(eng, sy, key, k, el, fkey):
                    o.status = True
                    o.why = ("INV-UNIFORM: every element stored into the indexed collection passed `y.len() == L` at its single write "
                             "site (%s), where L is the first stored element's y.len(), or its own while the collection is still empty" % p["at"])
                    return True
                if lx.op == "len" and lx.args[0].op == "field" and lx.args[0].args[1] == k and \
                        _same_elem(lx.args[0].args[0], el) and sy.op == "phi" and (x.op == "enum") == (sy is y):
                    if _set_once(eng, sy, fkey):
                        o.status = True
                        o.why = ("INV-UNIFORM: every element stored into the indexed collection passed `y.len() == first y.len()` at its "
                                 "single write site (%s), and the reference length is assigned only while unset" % p["at"])
                        return True
    return False


def _first_or_self(eng, E, key, k, el, fkey):
    """E is a join (not a loop accumulator) of the frame fkey whose incoming values are `len(V[0].k)` for the collection V
    the push goes to, or the pushed element's own `len(.k)` on an edge where V is known to be empty"""
    if Q.is_loop_acc(E):
        return False
    ps = Q.phi_site(eng, E.args[0])
    inc = PHI.get(E.args[0]) or {}
    if ps is None or ps[0] != fkey or len(inc) < 2:
        return False

    def same_vec(v):
        return is_t(v) and v.op == "phi" and v.args[0][0] == key[0] and v.args[0][-1] == key[-1]
    kinds = set()
    for edge, v in inc.items():
        if not (is_t(v) and v.op == "len" and v.args[0].op == "field" and v.args[0].args[1] == k):
            return False
        src = v.args[0].args[0]
        while src.op in ("deref", "refv"):
            src = src.args[0]
        if src.op == "index" and src.args[1].op == "int" and src.args[1].args[0] == 0 and same_vec(src.args[0]):
            kinds.add("first")
            continue
        if _same_elem(v.args[0].args[0], el):
            fs = Q.closure(eng, eng.facts_at(ps[0], edge))
            empty = any(t.op == "eq" and rel == "eq" and vv == 1 and t.args[0].op == "len" and same_vec(t.args[0].args[0]) and
                        t.args[1].op == "int" and t.args[1].args[0] == 0 for t, rel, vv in fs)
            if empty:
                kinds.add("self")
                continue
        return False
    return kinds == {"first", "self"}


def _loop_invariant(eng, y, fkey):
    """y names the same value on every iteration of the loops of frame fkey: it mentions no current element / counter /
    accumulator (except below `peeked`, which designates the first element) and no join of that frame"""
    stack, seen, n = [y], set(), 0
    while stack and n < 2000:
        x = stack.pop()
        n += 1
        if isinstance(x, (tuple, frozenset, list)):
            stack.extend(x)
            continue
        if not is_t(x) or x.id in seen:
            continue
        seen.add(x.id)
        if x.op == "peeked":
            continue
        if x.op in ("elem", "range_elem", "acc"):
            site = str(x.args[-1]) if x.op != "elem" else str(x.args[1]) if len(x.args) > 1 else ""
            if not site or site.startswith(fkey):
                return False          # an iteration of this frame (or of a frame it calls)
            # an element of an iteration of an enclosing frame is fixed while this frame runs
            stack.extend(a for a in x.args if is_t(a))
            continue
        if x.op == "phi":
            site = Q.phi_site(eng, x.args[0])
            if site is None or site[0] == fkey:
                return False
            continue
        stack.extend(x.args)
    return n < 2000


def _same_elem(a, b):
    while a.op in ("deref", "refv"):
        a = a.args[0]
    while b.op in ("deref", "refv"):
        b = b.args[0]
    return a is b


def _set_once(eng, sl, fkey):
    """sl is the reference length `Option<usize>` compared at the write site.  Accepted shape (checked on the phi
    structure of the analysed loop): sl = phi{ H , Some(len(cur.y)) } where the Some arrives only over an edge on
    which `H is None` holds, and H = loop-head phi{ None (entry), sl (back edge) }.  Then sl equals Some(len of the
    first element's y) in every iteration, so every stored element has that y-length."""
    inc = PHI.get(sl.args[0]) or {}
    goi = isinstance(sl.args[0], tuple) and sl.args[0] and sl.args[0][0] == "goi"      # Option::get_or_insert: sets only while None
    site = Q.phi_site(eng, sl.args[0])
    if (site is None and not goi) or len(inc) != 2:
        return False
    heads = [(p, v) for p, v in inc.items() if v.op == "phi"]
    somes = [(p, v) for p, v in inc.items() if v.op == "enum" and len(v.args[1]) == 1 and v.args[1][0][1] == "Some"]
    if len(heads) != 1 or len(somes) != 1:
        return False
    H = heads[0][1]
    hinc = PHI.get(H.args[0]) or {}
    hsite = Q.phi_site(eng, H.args[0])
    fr = eng.frames.get(fkey)
    if fr is None or hsite is None or hsite[1] not in fr.cfg.loop_heads():
        return False
    vals = list(hinc.values())
    nones = [v for v in vals if v.op == "enum" and len(v.args[1]) == 1 and v.args[1][0][1] == "None"]
    backs = [v for v in vals if v is sl]
    # one entry value (None); every back edge (there may be several: `continue`) carries sl itself
    if len(nones) != 1 or len(backs) < 1 or len(nones) + len(backs) != len(vals):
        return False
    # the Some value is assigned only where H is None
    if goi:
        return True
    pred = somes[0][0]
    fs = Q.closure(eng, eng.block_facts.get((fkey, pred), frozenset()))
    return any(t.op == "discr" and t.args[0] is H and rel == "eq" and v == 0 for t, rel, v in fs)


def _inv_paired(eng, facts, terms, exact=False):
    """find (len(V), len(K)) pairs that are equal by construction: V a Vec and K a set, both empty before one loop,
    K mutated only by one `insert`, V only by one `push` that is executed on exactly the paths where that insert
    returned true.  Returns the list of provable equalities among lengths mentioned in terms / facts."""
    lens = []
    for t in terms:
        lens += Q.find_all(t, lambda x: x.op == "len" and x.args[0].op == "phi")
    for f in facts:
        lens += Q.find_all(f[0], lambda x: x.op == "len" and x.args[0].op == "phi")
    out = []
    seen = set()
    for a in lens:
        for b in lens:
            if a is b or (a.id, b.id) in seen:
                continue
            seen.add((a.id, b.id))
            if _paired(eng, a.args[0], b.args[0], exact):
                out.append((a, b))
    return out


def _paired(eng, V, K, exact=False):
    sv, sk = Q.phi_site(eng, V.args[0]), Q.phi_site(eng, K.args[0])
    if sv is None or sk is None or sv != sk:
        return False
    fkey, head = sv
    fr = eng.frames.get(fkey)
    if fr is None or head not in fr.cfg.loop_heads():
        return False
    iv, ik = PHI.get(V.args[0]) or {}, PHI.get(K.args[0]) or {}
    cfg = fr.cfg
    ent_v = [v for p, v in iv.items() if not (isinstance(p, int) and cfg.dominates(head, p))]
    ent_k = [v for p, v in ik.items() if not (isinstance(p, int) and cfg.dominates(head, p))]
    if len(ent_v) != 1 or len(ent_k) != 1 or ent_v[0].op != "vec_new" or ent_k[0].op != "coll_new":
        return False
    locv, lock = V.args[0][2], K.args[0][2]
    evs = [e for e in eng.events.values() if e["kind"] == "call" and e["frame"] == fkey]
    def mut_users(loc):
        out = []
        for e in evs:
            for i, a in enumerate(e["args"]):
                if a.op == "ref" and a.args[0] == loc:
                    o = e.get("_term_args")
                    # &mut iff the caller's operand local has type &mut
                    from .models import _is_mut_arg
                    call = {"term": fr.fn.blocks[e["block"]]["t"], "frame": fr}
                    if _is_mut_arg(call, i):
                        out.append(e)
        return out
    mv, mk_ = mut_users(locv), mut_users(lock)
    if len(mk_) != 1 or not mv:
        return False
    ins = mk_[0]
    pushes = [e for e in mv if (e.get("callee") or "").endswith("::push")]
    if len(pushes) != len(mv) or "BTreeSet" not in (ins.get("callee") or "") or not ins["callee"].endswith("::insert"):
        return False      # the vector is only ever pushed to (never shrunk) inside the loop
    # direct assignments to the two locals inside the loop are not allowed
    for bi in cfg.reachable_from(head):
        if head not in cfg.reachable_from(bi):
            continue
        for st in fr.fn.blocks[bi]["s"]:
            if st.get("l") and st["l"][0] in (locv[1], lock[1]) and not st["l"][1]:
                return False
    res = ins["result"]
    # every path from the `inserted == true` edge back to the loop head passes through the push
    sw = None
    for b in cfg.rpo:
        st_ = eng.switch_terms.get((fkey, b))
        if st_ is not None and st_[0] is res:
            sw = (b, st_)
    if sw is None:
        # the result of insert is not tested: the push must follow on every path from the insertion to the loop head
        t_ = fr.fn.blocks[ins["block"]]["t"]
        true_succ = t_.get("target")
        if true_succ is None or true_succ < 0:
            return False
    else:
        b, (d, targets, otherwise) = sw
        true_succ = otherwise if all(int(v) == 0 for v, _ in targets) else None
        for v, tb in targets:
            if int(v) == 1:
                true_succ = tb
        if true_succ is None:
            return False
    reach = cfg.reachable_from(true_succ, avoid=tuple(e["block"] for e in pushes))
    if head in reach:
        return False
    if exact:
        # |V| == |K| needs the converse too: the (single) push runs only after a successful insertion of the same
        # iteration, and at most once per iteration (not inside a nested loop)
        if len(pushes) != 1 or sw is None:
            return False
        pb = pushes[0]["block"]
        if not cfg.edge_dominates(sw[0], true_succ, pb):
            return False
        if any(pb in cfg.reachable_from(s_, avoid=(head,)) for s_ in cfg.succ[pb]):
            return False
    return True


def _inv_count(eng, o, terms):
    """equalities len(V) == initial + per * iterations for a vector V that is grown by exactly one push (per = 1) or one
    append of a constant number of bytes per iteration of a loop that runs to completion (counted range lo..hi, or a
    complete traversal of a collection C: iterations = len(C)), valid at sites after the loop"""
    from .terms import Int
    out = []
    L0 = lin.Ctx(64)
    L0.repr_len = eng.size_of("share_ff::FpRepr", "star_sharks")
    for t in terms:
        for ln in Q.find_all(t, lambda x: x.op == "len" and x.args[0].op == "phi"):
            V = ln.args[0]
            site = Q.phi_site(eng, V.args[0])
            if site is None:
                continue
            fkey, head = site
            fr = eng.frames.get(fkey)
            if fr is None or head not in fr.cfg.loop_heads():
                continue
            cfg = fr.cfg
            inc = PHI.get(V.args[0]) or {}
            ent = [v for p, v in inc.items() if not (isinstance(p, int) and cfg.dominates(head, p))]
            if len(ent) != 1:
                continue
            init_len = L0._struct_len(ent[0])
            if init_len is None or not init_len.is_const():
                continue
            loc = V.args[0][2]
            # the loop is driven by Iterator::next, evaluated in the loop head region
            nxt = [e for e in eng.events.values() if e["kind"] == "call" and e["frame"] == fkey and (e.get("dname") or "").endswith("Iterator::next")
                   and cfg.dominates(head, e["block"]) and head in cfg.reachable_from(e["block"])]
            if len(nxt) != 1 or nxt[0]["result"] is None:
                continue
            some = Q.variant(nxt[0]["result"], 1)
            if not some or not some[2]:
                continue
            el = some[2][0]
            if el.op == "range_elem":
                lo, hi = el.args[0], el.args[1]
                count = mk("sub", hi, lo, "usize") if not (lo.op == "int" and lo.args[0] == 0) else hi
            else:
                # a complete traversal of a collection: as many iterations as it has elements
                # (the collection actually iterated - a loop-built vector counts as itself, not as an image of its source)
                src = Q.whole_of(nxt[0]["argv"][0]) if nxt[0]["argv"] and nxt[0]["argv"][0] is not None else None
                if src is None:
                    continue
                count = mk("len", src)
            # body = blocks on the Some edge; every path from the Some successor back to the head passes the single growth
            # call, nothing else mutates the vector, and the loop has no exit other than the None edge of next()
            from .models import _is_mut_arg
            muts = []
            for e in eng.events.values():
                if e["kind"] != "call" or e["frame"] != fkey:
                    continue
                if not (e["block"] in cfg.reachable_from(head) and head in cfg.reachable_from(e["block"])):
                    continue      # before / after the loop: part of the entry value or a later use
                for i, a in enumerate(e["args"]):
                    if a.op == "ref" and a.args[0] == loc and _is_mut_arg({"term": fr.fn.blocks[e["block"]]["t"], "frame": fr}, i):
                        muts.append(e)
            if len(muts) != 1:
                continue
            push = muts[0]
            callee = push.get("callee") or ""
            if callee.endswith("::push"):
                per = 1
            elif callee.endswith("::extend_from_slice") and len(push["argv"]) > 1 and push["argv"][1] is not None:
                pl = L0._struct_len(push["argv"][1])
                if pl is None or not pl.is_const():
                    continue
                per = int(pl.c)
            else:
                continue
            # find the switch on the discriminant of next()'s result
            some_succ = none_succ = None
            sw_block = None
            for b in cfg.rpo:
                st_ = eng.switch_terms.get((fkey, b))
                if st_ is not None and st_[0].op == "discr" and st_[0].args[0] is nxt[0]["result"]:
                    sw_block = b
                    for v, tb in st_[1]:
                        if int(v) == 1:
                            some_succ = tb
                        if int(v) == 0:
                            none_succ = tb
            if some_succ is None or none_succ is None:
                continue
            if head in cfg.reachable_from(some_succ, avoid=(push["block"],)):
                continue          # a path around the growth call
            if any(push["block"] in cfg.reachable_from(s_, avoid=(head,)) for s_ in cfg.succ[push["block"]]):
                continue          # the growth call sits in a nested loop
            body = {b for b in cfg.reachable_from(some_succ) if head in cfg.reachable_from(b)}
            exits = [b for b in body for s_ in cfg.succ[b] if s_ not in body and s_ != head and s_ != none_succ]
            returns_in_body = [b for b in cfg.reachable_from(some_succ, avoid=(head,)) if "return" in fr.fn.blocks[b]["t"]]
            if exits or returns_in_body:
                continue          # break / early return: the count is only an upper bound
            # the use must be after the loop: its block (lifted into the loop's frame) is reached only through the None edge
            # (a use in another frame sees the value only after the loop's frame returned through the loop exit)
            ob = eng._lift(o.frame, o.block, fkey)
            if ob is not None and not cfg.edge_dominates(sw_block, none_succ, ob):
                continue
            if per == 1 and init_len.c == 0:
                n = count
            else:
                n = mk("add", Int(int(init_len.c)), mk("mul", Int(per), count, "usize"), "usize")
            out.append((ln, n))
    return out
