"""CFG utilities over exported MIR bodies: successors, RPO, dominators, edge dominance, loops, reachability."""


def succs(fn, bi):
    t = fn.blocks[bi]["t"]
    if "goto" in t:
        return [t["goto"]]
    if "call" in t:
        return [t["target"]] if t["target"] >= 0 else []
    if "switch" in t:
        out = [b for _, b in t["targets"]]
        out.append(t["otherwise"])
        return out
    if "assert" in t:
        return [t["target"]]
    if "drop" in t:
        return [t["target"]]
    return []


class CFG:
    def __init__(self, fn):
        self.fn = fn
        n = len(fn.blocks)
        self.n = n
        self.succ = [[] for _ in range(n)]
        self.pred = [[] for _ in range(n)]
        for b in range(n):
            if fn.blocks[b]["c"]:
                continue
            for s in succs(fn, b):
                if fn.blocks[s]["c"]:
                    continue
                if "unreachable" in fn.blocks[s]["t"]:
                    continue
                if s not in self.succ[b]:
                    self.succ[b].append(s)
                    self.pred[s].append(b)
        # reverse post-order from entry
        seen = [False] * n
        order = []
        stack = [(0, iter(self.succ[0]))]
        seen[0] = True
        while stack:
            b, it = stack[-1]
            adv = False
            for s in it:
                if not seen[s]:
                    seen[s] = True
                    stack.append((s, iter(self.succ[s])))
                    adv = True
                    break
            if not adv:
                order.append(b)
                stack.pop()
        self.rpo = order[::-1]
        self.reach = seen
        self.rpo_index = {b: i for i, b in enumerate(self.rpo)}
        self._idom = None

    # --- dominators (Cooper-Harvey-Kennedy) ---
    def idom(self):
        if self._idom is not None:
            return self._idom
        idom = {0: 0}
        idx = self.rpo_index
        changed = True
        while changed:
            changed = False
            for b in self.rpo[1:]:
                new = None
                for p in self.pred[b]:
                    if p in idom:
                        if new is None:
                            new = p
                        else:
                            a, c = p, new
                            while a != c:
                                while idx[a] > idx[c]:
                                    a = idom[a]
                                while idx[c] > idx[a]:
                                    c = idom[c]
                            new = a
                if new is not None and idom.get(b) != new:
                    idom[b] = new
                    changed = True
        self._idom = idom
        return idom

    def dominates(self, a, b):
        """block a dominates block b"""
        idom = self.idom()
        if b not in idom:
            return False
        while True:
            if a == b:
                return True
            if b == 0:
                return False
            b = idom[b]

    def dominators(self, b):
        idom = self.idom()
        out = []
        if b not in idom:
            return out
        while True:
            out.append(b)
            if b == 0:
                break
            b = idom[b]
        return out

    def edge_dominates(self, a, s, b):
        """every path from entry to b passes through edge a->s (s successor of a).
        True iff s dominates b and every predecessor of s other than a is dominated by s (i.e. reaches s only
        through s itself), and a->s is the only entry into s from outside."""
        if not self.dominates(s, b):
            return False
        for p in self.pred[s]:
            if p != a and not self.dominates(s, p):
                return False
        # a->s must be a single edge kind (if a has s twice for different switch values caller disambiguates)
        return True

    def reachable_from(self, b, avoid=()):
        seen = set()
        stack = [b]
        while stack:
            x = stack.pop()
            if x in seen or x in avoid:
                continue
            seen.add(x)
            stack.extend(self.succ[x])
        return seen

    def back_edges(self):
        out = []
        for b in self.rpo:
            for s in self.succ[b]:
                if self.dominates(s, b):
                    out.append((b, s))
        return out

    def loop_heads(self):
        return sorted({s for _, s in self.back_edges()})

    def return_blocks(self):
        return [b for b in self.rpo if "return" in self.fn.blocks[b]["t"]]


def cfg_of(fn):
    if fn._cfg is None:
        fn._cfg = CFG(fn)
    return fn._cfg
