"""Hash-consed symbolic terms.

A Term is an immutable node (op, args).  Terms are interned, so equality is identity and hashing is O(1)
per node.  Args are Terms, ints, strs, bools, None, or (shallow) tuples/frozensets of those.

Value kinds (by op):
  int(v, ty)                      integer / bool / char constant
  bytes(hex)                      constant byte string (labels, literals)
  unit()                          ()
  param(name)                     initial value of a root parameter (by-value) or of its pointee
  ref(loc, path)                  pointer to a store location; loc=(frame_key, local) or ('param', name)
  refv(v)                         shared reference to an immutable value (no location)
  agg(kind, f0, f1, ...)          struct / tuple / array / closure aggregate ; kind is a str
  variant(adt, idx, vname, f...)  a definite enum variant
  enum(adt, alts)                 variant-partitioned join; alts = tuple of (idx, variant-term, facts frozenset)
  phi(key)                        join of differing values at a CFG merge; incoming terms kept in PHI[key]
  field(t, n) / payload(t, v, n)  projections out of opaque values
  deref(t) / elem(t)              deref of an opaque pointer / an element of a collection or iterator
  discr(t)                        discriminant of an opaque enum value
  ext(name, a0, a1, ...)          result of an unmodelled / opaque external call
  extmut(name, i, a0, ...)        value left in the i-th (&mut) argument by an opaque external call
  <op>(...)                       modelled operations: add sub mul div rem lt le gt ge eq ne not neg cast len
                                  strobe_new sop owf rng append push from_elem ...
"""


class Term:
    __slots__ = ("op", "args", "id", "_deps")

    def __repr__(self):
        return show(self)


_TABLE = {}
_N = [0]


def mk(op, *args):
    key = (op,) + args
    t = _TABLE.get(key)
    if t is None:
        t = Term()
        t.op = op
        t.args = args
        t.id = _N[0]
        t._deps = None
        _N[0] += 1
        _TABLE[key] = t
    return t


def is_t(x):
    return isinstance(x, Term)


# phi bookkeeping: key -> {pred: incoming term}
PHI = {}
# id of a loop-head join that is a set-once cell holding the FIRST element of the traversed collection
# (`let mut first = None; for x in xs { if first.is_none() { first = Some(x) } .. }`) -> the term of that first element
FIRST_CELLS = {}


def reset():
    _TABLE.clear()
    PHI.clear()
    FIRST_CELLS.clear()
    _N[0] = 0


UNIT = None


def unit():
    return mk("unit")


def Int(v, ty="usize"):
    return mk("int", v, ty)


def as_int(t):
    if is_t(t) and t.op == "int":
        return t.args[0]
    return None


def subterms(t, seen=None):
    """iterate all Term nodes reachable from t (through args, nested tuples, and phi incoming sets)"""
    if seen is None:
        seen = set()
    stack = [t]
    while stack:
        x = stack.pop()
        if isinstance(x, Term):
            if x.id in seen:
                continue
            seen.add(x.id)
            yield x
            if x.op == "phi":
                inc = PHI.get(x.args[0])
                if inc:
                    stack.extend(inc.values())
            stack.extend(x.args)
        elif isinstance(x, (tuple, frozenset, list)):
            stack.extend(x)


def show(t, depth=6):
    if not isinstance(t, Term):
        if isinstance(t, tuple):
            return "(" + ",".join(show(x, depth) for x in t) + ")"
        if isinstance(t, frozenset):
            return "{" + ",".join(sorted(show(x, depth) for x in t)) + "}"
        return repr(t) if not isinstance(t, str) else t
    if depth <= 0:
        return t.op + "(..)"
    op = t.op
    if op == "int":
        return "%s_%s" % (t.args[0], t.args[1])
    if op == "bytes":
        try:
            return "b" + repr(bytes.fromhex(t.args[0]).decode("latin1"))
        except Exception:
            return "bytes(%s)" % t.args[0]
    if op == "param":
        return "$" + str(t.args[0])
    if op == "phi":
        k = t.args[0]
        return "phi<%s>" % (":".join(str(x) for x in k[1:]) if isinstance(k, tuple) else k)
    if op == "ref":
        loc, path = t.args
        return "&[%s%s]" % (":".join(str(x)[-24:] for x in loc), "".join("." + str(p) for p in path))
    return op + "(" + ",".join(show(a, depth - 1) for a in t.args) + ")"
