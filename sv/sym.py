"""SYM: symbolic abstract interpreter over exported MIR.

One forward analysis serves DEP (what a value depends on / contains in the clear), TRACE (ordered operations
applied to Strobe / Vec accumulators), GUARD/MUSTPASS (facts on dominating edges) and PANIC (obligations at
failure sites).  It is an abstract interpretation, not path-wise symbolic execution: every CFG merge joins
states (differing values become phi terms whose incoming values are kept per predecessor), loops are solved
by fixpoint iteration, no path is enumerated and no solver sees a path condition.

Workspace callees are inlined context-sensitively (a frame per call-site path); derive-generated bodies and
external callees are handled by the model table (sv/models.py) with a conservative default.
"""
import re

from . import cfg as cfgm
from .facts import const_int
from .terms import FIRST_CELLS, PHI, Int, Term, is_t, mk, show, subterms

MAX_DEPTH = 48

KNOWN_ENUMS = {
    "std::option::Option", "std::result::Result", "std::ops::ControlFlow", "std::cmp::Ordering",
    "core::option::Option", "core::result::Result", "core::ops::ControlFlow",
}


class Unsupported(Exception):
    pass


# --------------------------------------------------------------------------------------------------------
# smart constructors / projections
# --------------------------------------------------------------------------------------------------------

def enum1(adt, idx, vname, fields, origin=None):
    """a definite enum variant"""
    origins = frozenset([origin]) if origin else frozenset()
    return mk("enum", adt, ((idx, vname, tuple(fields), frozenset(), origins),))


def enum_alts(t):
    return t.args[1]


def field(v, n):
    op = v.op
    if op == "boxptr":
        return v
    if op == "fp_to_repr" and n == 0:
        return v          # FpRepr is a newtype around its bytes: `.0` designates the same 24-byte encoding
    if op == "oneof":
        return mk("oneof", *[field(x, n) for x in v.args])
    if op == "chain_elem":
        # the element of a.chain(b) is an element of a or of b: its field is that element's field
        return mk("chain_elem", field(v.args[0], n), field(v.args[1], n), v.args[2])
    if op == "deref" and v.args[0].op == "chain_elem":
        ce = v.args[0]
        da = ce.args[0].args[0] if ce.args[0].op == "refv" else mk("deref", ce.args[0])
        db = ce.args[1].args[0] if ce.args[1].op == "refv" else mk("deref", ce.args[1])
        return mk("chain_elem", field(da, n), field(db, n), ce.args[2])
    if op == "agg":
        a = v.args
        if 1 + n < len(a):
            return a[1 + n]
        return mk("field", v, n)
    if op == "upd":
        old, key, val = v.args
        if key == ("f", n):
            return val
        return field(old, n)
    if op == "variantview":
        fs = v.args[0]
        if n < len(fs):
            return fs[n]
        return mk("field", v, n)
    if op == "payloadview":
        return mk("payload", v.args[0], v.args[1], n)
    if op == "refv":
        # auto-deref never happens in MIR; keep opaque
        return mk("field", v, n)
    if op == "from_elem" and False:
        return v.args[0]
    return mk("field", v, n)


def downcast(v, k):
    if v.op == "enum":
        for alt in v.args[1]:
            if alt[0] == k:
                return mk("variantview", alt[2])
        # variant not among the known alternatives: infeasible view
        return mk("payloadview", v, k)
    if v.op == "upd":
        old, key, val = v.args
        if key == ("v", k):
            return val
    return mk("payloadview", v, k)


def index(v, i):
    ci = i.args[0] if is_t(i) and i.op == "int" else None
    if v.op == "agg" and v.args[0] == "array" and ci is not None and 0 <= ci < len(v.args) - 1:
        return v.args[1 + ci]
    if v.op == "from_elem":
        return v.args[0]
    if v.op == "from_fn":
        if ci is not None:
            from .query import substitute
            return substitute(v.args[1], v.args[2], Int(ci, "usize"))       # element k = f(k)
        return mk("index", v, i)
    if v.op == "inserted" and ci is not None and is_t(v.args[1]) and v.args[1].op == "int":
        at = v.args[1].args[0]
        if ci == at:
            return v.args[2]
        return index(v.args[0], i if ci < at else Int(ci - 1))
    if v.op == "removed" and ci is not None and is_t(v.args[1]) and v.args[1].op == "int":
        at = v.args[1].args[0]
        return index(v.args[0], i if ci < at else Int(ci + 1))
    return mk("index", v, i)


def deref_value(eng, state, p):
    """value pointed to by pointer term p"""
    op = p.op
    if op == "ref":
        return eng.load(state, p.args[0], p.args[1])
    if op == "refv":
        return p.args[0]
    if op == "refo":
        return project(eng, state, mk("deref", p.args[0]), p.args[1])
    if op == "phi":
        inc = PHI.get(p.args[0])
        if inc and all(x.op in ("ref", "refv", "refo") for x in inc.values()):
            vals = {pred: deref_value(eng, state, x) for pred, x in inc.items()}
            return eng.join_values(("deref",) + p.args[0], vals)
    if op == "oneof":
        return mk("oneof", *[deref_value(eng, state, x) for x in p.args])
    if op == "boxptr":
        v = state.get(p.args[0])
        return v if v is not None else mk("undef", p.args[0])
    return mk("deref", p)


def project(eng, state, v, path):
    for e in path:
        if e == "*":
            v = deref_value(eng, state, v)
        elif e[0] == "f":
            v = field(v, e[1])
        elif e[0] == "v":
            v = downcast(v, e[1])
        elif e[0] == "i":
            v = index(v, e[1])
        elif e[0] == "ci":
            v = index(v, Int(e[1]))
        elif e[0] == "sub":
            v = mk("subslice", v, Int(e[1]), Int(e[2]), e[3])
        elif e[0] == "rng":
            v = mk("slice", v, e[1], e[2])
        else:
            v = mk("proj", v, str(e))
    return v


def update(v, path, val):
    """functional update of value v at path with val"""
    if not path:
        return val
    e = path[0]
    rest = path[1:]
    if e == "*":
        raise Unsupported("deref inside resolved path")
    if e[0] == "f":
        n = e[1]
        if v is not None and v.op == "agg" and 1 + n < len(v.args):
            a = list(v.args)
            a[1 + n] = update(a[1 + n], rest, val)
            return mk("agg", *a)
        old = v if v is not None else mk("undef")
        return mk("upd", old, ("f", n), update(field(old, n), rest, val))
    if e[0] == "v":
        old = v if v is not None else mk("undef")
        return mk("upd", old, ("v", e[1]), update(downcast(old, e[1]), rest, val))
    if e[0] in ("i", "ci"):
        old = v if v is not None else mk("undef")
        i = e[1] if e[0] == "i" else Int(e[1])
        return mk("updidx", old, i, update(index(old, i), rest, val))
    old = v if v is not None else mk("undef")
    if e[0] == "rng" and len(e) == 3 and not rest:
        return mk("updrng", old, e[1], e[2], val)      # old[lo..hi] := val (length unchanged)
    return mk("updo", old, str(e), val)


_INT_RANGES = {
    "u8": (0, 2 ** 8 - 1), "u16": (0, 2 ** 16 - 1), "u32": (0, 2 ** 32 - 1), "u64": (0, 2 ** 64 - 1),
    "u128": (0, 2 ** 128 - 1), "i8": (-2 ** 7, 2 ** 7 - 1), "i16": (-2 ** 15, 2 ** 15 - 1),
    "i32": (-2 ** 31, 2 ** 31 - 1), "i64": (-2 ** 63, 2 ** 63 - 1), "i128": (-2 ** 127, 2 ** 127 - 1),
    "bool": (0, 1),
}


def int_range(ty, usize_bits=64):
    if ty == "usize":
        return (0, 2 ** usize_bits - 1)
    if ty == "isize":
        return (-2 ** (usize_bits - 1), 2 ** (usize_bits - 1) - 1)
    return _INT_RANGES.get(ty)


CMP = {"Eq": "eq", "Ne": "ne", "Lt": "lt", "Le": "le", "Gt": "gt", "Ge": "ge"}
ARITH = {"Add": "add", "Sub": "sub", "Mul": "mul", "Div": "div", "Rem": "rem", "BitAnd": "and", "BitOr": "or",
         "BitXor": "xor", "Shl": "shl", "Shr": "shr", "AddUnchecked": "add", "SubUnchecked": "sub",
         "MulUnchecked": "mul", "ShlUnchecked": "shl", "ShrUnchecked": "shr", "Offset": "offset"}


def binop(op, a, b, ty):
    ca = a.args[0] if a.op == "int" else None
    cb = b.args[0] if b.op == "int" else None
    if op in CMP:
        o = CMP[op]
        if ca is not None and cb is not None:
            r = {"eq": ca == cb, "ne": ca != cb, "lt": ca < cb, "le": ca <= cb, "gt": ca > cb, "ge": ca >= cb}[o]
            return Int(1 if r else 0, "bool")
        if a is b and o in ("eq", "le", "ge"):
            return Int(1, "bool")
        return mk(o, a, b)
    if op in ARITH:
        o = ARITH[op]
        if ca is not None and cb is not None and o in ("add", "sub", "mul"):
            r = {"add": ca + cb, "sub": ca - cb, "mul": ca * cb}[o]
            rng = int_range(ty)
            if rng and rng[0] <= r <= rng[1]:
                return Int(r, ty)
        if o == "div" and ca is not None and cb:
            return Int(ca // cb, ty)
        if o == "add" and cb == 0:
            return a
        if o == "add" and ca == 0:
            return b
        if o == "mul" and cb == 1:
            return a
        return mk(o, a, b, ty)
    if op.endswith("WithOverflow"):
        base = op[:-len("WithOverflow")]
        o = ARITH[base]
        return mk("agg", "tuple", binop(base, a, b, ty), mk("ovf", o, a, b, ty))
    if op == "Cmp":
        return mk("cmp", a, b)
    return mk("bin_" + op, a, b)


# --------------------------------------------------------------------------------------------------------

def _std_name(adt):
    """core:: / alloc:: and std:: name the same library types (a no_std build prints the former)"""
    for pre in ("core::", "alloc::"):
        if adt.startswith(pre):
            return "std::" + adt[len(pre):]
    return adt


class Frame:
    __slots__ = ("key", "fn", "subst", "parent", "call_block", "depth", "ambient", "cfg")

    def __init__(self, key, fn, subst, parent, call_block, ambient=frozenset()):
        self.key = key
        self.fn = fn
        self.subst = subst          # generic param name -> (type string, crate)
        self.parent = parent
        self.call_block = call_block
        self.depth = 0 if parent is None else parent.depth + 1
        self.ambient = ambient      # extra facts that hold throughout this frame (e.g. filter predicate)
        self.cfg = cfgm.cfg_of(fn)

    def stack(self):
        out = []
        f = self
        while f is not None:
            out.append(f.fn.name)
            f = f.parent
        return out[::-1]


class Engine:
    def __init__(self, facts, models, usize_bits=64, opaque=None):
        self.facts = facts
        self.models = models
        self.usize_bits = usize_bits
        self.events = {}        # (frame_key, block, tag) -> dict
        self.switch_terms = {}  # (frame_key, block) -> (discr term, targets, otherwise)
        self.block_facts = {}   # (frame_key, block) -> frozenset of facts established inside that frame
        self.model_alt_facts = {}   # (frame_key, ("m", block, idx)) -> explicit facts of a model-built enum alternative
        self.len_elem = {}      # id of a len(..) term -> (element type string, crate) of the measured Vec / slice
        self.frames = {}        # frame_key -> Frame (last analysed)
        self.unsupported = []   # notes (recursion, unknown writes ...)
        self.unmodelled = {}    # external callee name -> count
        self.used_models = {}
        self.phi_changed = False
        self.opaque = set(opaque or ())   # workspace function names to treat as opaque
        self.site_counter = 0
        self.ctrl = {}          # (frame_key, merge block) -> switch discriminant terms deciding which edge reaches it
        self.cur = None         # (frame, block) being executed
        self.param_writes = {}  # (frame_key, block, loc, path) -> fn name : writes into root-parameter pointees
        self.executed = set()   # (fn name, block) executed in some frame (blocks never executed are infeasible in context)
        self.n_frames = 0
        self.n_block_execs = 0

    # ---------------- store access ----------------
    def load(self, state, loc, path):
        v = state.get(loc)
        if v is None:
            v = mk("undef", loc)
        return project(self, state, v, path)

    def store(self, state, loc, path, val):
        if loc[0] == "param" and self.cur is not None:
            self.param_writes[(self.cur[0].key, self.cur[1], loc, path)] = self.cur[0].fn.name
        if not path:
            state[loc] = val
        else:
            state[loc] = update(state.get(loc), path, val)

    def resolve_place(self, state, frame, place):
        """walk a place to (kind, loc, path) where kind in {'loc','val','opaque'}.
        'loc': a store location + path; 'val': an immutable value (behind refv) ; 'opaque': unknown pointer"""
        loc = (frame.key, place[0])
        path = ()
        kind = "loc"
        val = None
        skip_wrappers = False
        for e in place[1]:
            if skip_wrappers and e != "*" and e[0] == "f":
                continue   # MaybeUninit / ManuallyDrop wrappers around a fresh Box content
            if e == "*":
                if kind == "loc":
                    p = self.load(state, loc, path)
                else:
                    p = val
                if p.op == "ref":
                    kind, loc, path = "loc", p.args[0], p.args[1]
                elif p.op == "boxptr":
                    kind, loc, path = "loc", p.args[0], ()
                    skip_wrappers = True
                elif p.op == "refv":
                    kind, val = "val", p.args[0]
                else:
                    kind, val = "val", deref_value(self, state, p)
                    if p.op != "phi":
                        kind = "opaque"
                    else:
                        kind = "phi"
                        loc = p
                        path = ()
                continue
            if isinstance(e, list):
                e = tuple(e)
            if e[0] == "i":
                e = ("i", self.load(state, (frame.key, e[1]), ()))
            if kind == "loc":
                path = path + (e,)
            elif kind == "phi":
                path = path + (e,)
                val = project(self, state, val, (e,))
            else:
                val = project(self, state, val, (e,))
        return kind, loc, path, val

    def read_place(self, state, frame, place):
        kind, loc, path, val = self.resolve_place(state, frame, place)
        if kind == "loc":
            return self.load(state, loc, path)
        return val

    def write_place(self, state, frame, place, v, site=None):
        kind, loc, path, val = self.resolve_place(state, frame, place)
        if kind == "loc":
            self.store(state, loc, path, v)
        elif kind == "phi":
            # weak update of every possible target
            inc = PHI.get(loc.args[0]) or {}
            for pred, p in inc.items():
                if p.op == "ref":
                    old = self.load(state, p.args[0], p.args[1] + path)
                    nv = self.join_values(("weak", frame.key, site), {0: old, 1: v})
                    self.store(state, p.args[0], p.args[1] + path, nv)
                else:
                    self.note("write through non-location pointer in %s" % frame.fn.name)
        else:
            self.note("write through opaque pointer in %s (%s)" % (frame.fn.name, site))

    def pointer_to(self, state, frame, place):
        kind, loc, path, val = self.resolve_place(state, frame, place)
        if kind == "loc":
            return mk("ref", loc, path)
        if kind == "phi":
            inc = PHI.get(loc.args[0]) or {}
            vals = {}
            for pred, p in inc.items():
                if p.op == "ref":
                    vals[pred] = mk("ref", p.args[0], p.args[1] + path)
                elif p.op == "refv":
                    vals[pred] = mk("refv", project(self, state, p.args[0], path))
                else:
                    vals[pred] = mk("refv", project(self, state, deref_value(self, state, p), path))
            return self.join_values(("ptr",) + loc.args[0] + (path,), vals)
        return mk("refv", val)

    def note(self, msg):
        if msg not in self.unsupported:
            self.unsupported.append(msg)

    # ---------------- constants / operands ----------------
    def const_term(self, k, frame):
        if "int" in k:
            ty = k["ty"]
            v = const_int(k)
            return Int(v, ty)
        if "bytes" in k:
            return mk("refv", mk("bytes", k["bytes"]))
        if "fn" in k:
            return mk("fnitem", k["fn"], k["name"], tuple(k["substs"]))
        if k.get("ty") == "()":
            return mk("unit")
        d = k.get("def")
        if d:
            # named constant / promoted: try to evaluate its const body (straight-line)
            f = self.facts.fns.get(d)
            if f is not None:
                return self.eval_const_body(f)
            # `<T as Trait>::NAME` without a default body: the constant of T's impl of the trait (T through the frame's
            # generic substitution)
            m = re.match(r"^<(.+) as (.+)>::(\w+)$", k.get("other") or "")
            if m and frame is not None and d.split("::")[0] in self.facts.crates:
                # (constants of third-party traits - ff::Field::ZERO / ONE - stay symbolic: the rules name them)
                ty, crate = self.subst_ty(frame, m.group(1))
                g = self.find_impl_fn(m.group(3), ty, crate, trait_contains=m.group(2).split("<")[0].split("::")[-1])
                if g is not None:
                    return self.eval_const_body(g)
            return mk("constdef", d, k["ty"])
        return mk("const", k.get("other"), k.get("ty"))

    def eval_const_body(self, f):
        fr = Frame("const:" + f.path, f, {}, None, None)
        st = {}
        ret, out = self.run_frame(fr, st, [], keep_locals=True)
        if ret is not None and ret.op == "ref" and out is not None:
            # a promoted `&CONST`: the referent lives in the constant's own frame -> reference to a value
            ret = mk("refv", self.load(out, ret.args[0], ret.args[1]))
        return ret if ret is not None else mk("constdef", f.path)

    def operand(self, state, frame, o):
        if "c" in o:
            return self.read_place(state, frame, o["c"])
        if "m" in o:
            return self.read_place(state, frame, o["m"])
        if "k" in o:
            return self.const_term(o["k"], frame)
        return mk("op", str(o))

    # ---------------- joins ----------------
    def join_values(self, key, inc):
        """inc: dict pred -> term (all not None).  Returns the joined term."""
        vals = list(inc.values())
        first = vals[0]
        same = True
        for v in vals[1:]:
            if v is not first:
                same = False
                break
        if same:
            return first
        ops = {v.op for v in vals}
        if ops == {"enum"} and len({_std_name(v.args[0]) for v in vals}) == 1:
            adt = _std_name(first.args[0])
            by = {}
            for pred, v in inc.items():
                for alt in v.args[1]:
                    by.setdefault(alt[0], []).append((pred, alt))
            alts = []
            for idx in sorted(by):
                lst = by[idx]
                if len({a for _, a in lst}) == 1:
                    alts.append(lst[0][1])
                    continue
                vname = lst[0][1][1]
                nf = len(lst[0][1][2])
                fields = []
                for fi in range(nf):
                    fields.append(self.join_values(key + ("v", idx, fi), {p: a[2][fi] for p, a in lst if len(a[2]) > fi}))
                facts = None
                origins = frozenset()
                mixed = False
                for _, a in lst:
                    # facts of an alternative: explicit facts only meaningful when origins empty
                    origins = origins | a[4]
                    if a[3]:
                        mixed = True
                # merged alternative: keep origins (facts = intersection over origins, resolved lazily);
                # explicit facts are intersected
                ex = None
                for _, a in lst:
                    ex = a[3] if ex is None else (ex & a[3])
                alts.append((idx, vname, tuple(fields), ex or frozenset(), origins if not mixed else origins))
            return mk("enum", adt, tuple(alts))
        if ops == {"agg"} and len({(v.args[0], len(v.args)) for v in vals}) == 1 and not first.args[0].startswith("closure"):
            kind = first.args[0]
            n = len(first.args) - 1
            fields = [self.join_values(key + ("f", i), {p: v.args[1 + i] for p, v in inc.items()}) for i in range(n)]
            return mk("agg", kind, *fields)
        if ops == {"refv"}:
            return mk("refv", self.join_values(key + ("rv",), {p: v.args[0] for p, v in inc.items()}))
        old = PHI.get(key)
        if old != inc:
            PHI[key] = dict(inc)
            self.phi_changed = True
        return mk("phi", key)

    def join_states(self, frame, b, preds_states):
        """preds_states: list of (pred id, state dict).
        At loop heads values are never merged structurally and a value that arrives only over a back edge is
        wrapped in a phi: terms naming `the current element` of an iteration must not be confused with the
        element of an earlier iteration (soundness of facts about loop elements)."""
        if len(preds_states) == 1 and not (isinstance(b, int) and b in frame.cfg.loop_heads()):
            return dict(preds_states[0][1])
        loop_head = isinstance(b, int) and b in self._loop_heads(frame)
        keys = set()
        for _, s in preds_states:
            keys.update(s.keys())
        out = {}
        npreds = len(preds_states)
        for k in keys:
            inc = {}
            for p, s in preds_states:
                v = s.get(k)
                if v is not None:
                    inc[p] = v
            if loop_head:
                vals = list(inc.values())
                same = all(v is vals[0] for v in vals[1:])
                back_only = all(isinstance(p, int) and frame.cfg.dominates(b, p) for p in inc)
                if same and not (back_only and npreds > len(inc)) and not (back_only and len(inc) == npreds and npreds == 1):
                    out[k] = vals[0]
                else:
                    key = (frame.key, b, k)
                    if PHI.get(key) != inc:
                        PHI[key] = dict(inc)
                        self.phi_changed = True
                    out[k] = mk("phi", key)
                continue
            if len(inc) == 1:
                out[k] = next(iter(inc.values()))
            else:
                out[k] = self.join_values((frame.key, b, k), inc)
        return out

    def _loop_heads(self, frame):
        lh = getattr(frame.cfg, "_lh", None)
        if lh is None:
            lh = set(frame.cfg.loop_heads())
            frame.cfg._lh = lh
        return lh

    # ---------------- frames ----------------
    def run_root(self, fn, args=None, state=None):
        """analyse fn as an entry point with symbolic parameters.  Returns (ret term, final state, frame)."""
        state = {} if state is None else state
        frame = Frame("root:" + fn.name, fn, {g: (g, fn.crate) for g in fn.generics}, None, None)
        if args is None:
            args = []
            for i in range(1, fn.argc + 1):
                nm = fn.var_name(i) or ("arg%d" % i)
                ty = fn.locals[i]
                if ty.startswith("&"):
                    loc = ("param", nm)
                    state[loc] = mk("param", nm)
                    args.append(mk("ref", loc, ()))
                else:
                    args.append(mk("param", nm))
        ret, out = self.run_frame(frame, state, args)
        return ret, out, frame

    def run_frame(self, frame, state, args, keep_locals=False):
        if frame.depth > MAX_DEPTH:
            raise Unsupported("inlining depth exceeded at %s" % frame.fn.name)
        self.n_frames += 1
        self.frames[frame.key] = frame
        fn = frame.fn
        cfg = frame.cfg
        st0 = state  # caller's dict is threaded through (callee-local keys are removed on return)
        for i, a in enumerate(args):
            st0[(frame.key, i + 1)] = a
        in_states = {}
        out_states = {}
        feasible = {}
        rounds = 0
        while True:
            rounds += 1
            if rounds > 40:
                raise Unsupported("no fixpoint in %s" % fn.name)
            changed = False
            self.phi_changed = False
            for b in cfg.rpo:
                if b == 0:
                    preds = [("entry", st0)]
                else:
                    preds = []
                for p in cfg.pred[b]:
                    if p in out_states and out_states[p] is not None and b in feasible.get(p, ()):
                        preds.append((p, self.refine_on_edge(frame, p, b, out_states[p])))
                if not preds:
                    continue
                st = self.join_states(frame, b, preds)
                prev = in_states.get(b)
                if prev is not None and _same_state(prev, st) and b in out_states and not self.phi_changed:
                    continue
                in_states[b] = st
                work = dict(st)
                succ = self.exec_block(frame, b, work)
                self.n_block_execs += 1
                old_out = out_states.get(b)
                old_f = feasible.get(b)
                out_states[b] = work if succ is not None else None
                feasible[b] = set(succ or ())
                if old_out is None or work is None or not _same_state(old_out, work) or old_f != feasible[b]:
                    changed = True
            if not changed and not self.phi_changed:
                break
        # facts per block (dominating switch edges of the final pass)
        self.compute_block_facts(frame, in_states)
        self.detect_first_cells(frame)
        # return value: join over return blocks
        rets = []
        for b in cfg.return_blocks():
            if b in out_states and out_states[b] is not None:
                rets.append((b, out_states[b]))
        if not rets:
            return None, None   # diverges
        final = self.join_states(frame, "ret", rets)
        ret = final.get((frame.key, 0))
        # drop callee locals
        pre = frame.key
        out = final if keep_locals else {k: v for k, v in final.items() if not (k[0] == pre)}
        self.events[(frame.key, "ret", "ret")] = {"kind": "ret", "fn": fn.name, "value": ret, "frame": frame.key}
        return ret, out

    def compute_block_facts(self, frame, in_states):
        cfg = frame.cfg
        fn = frame.fn
        edge_facts = {}
        for b in cfg.rpo:
            sw = self.switch_terms.get((frame.key, b))
            if sw is None:
                continue
            d, targets, otherwise = sw
            tv = {}
            for v, tb in targets:
                tv.setdefault(tb, []).append(int(v))
            allvals = tuple(sorted(int(v) for v, _ in targets))
            for tb, vs in tv.items():
                if tb == otherwise:
                    continue
                if len(vs) == 1:
                    edge_facts.setdefault((b, tb), []).append((d, "eq", vs[0]))
                else:
                    edge_facts.setdefault((b, tb), []).append((d, "in", tuple(vs)))
            if otherwise not in tv:
                edge_facts.setdefault((b, otherwise), []).append((d, "notin", allvals))
        # facts that hold once a call has returned normally (unwrap / expect returned => the value was the success variant)
        for b in cfg.rpo:
            ev = self.events.get((frame.key, b, "t"))
            if ev and ev.get("kind") == "call" and ev.get("post_facts"):
                tgt = fn.blocks[b]["t"].get("target")
                if tgt is not None and tgt >= 0:
                    edge_facts.setdefault((b, tgt), []).extend(ev["post_facts"])
        # control conditions of merge blocks: switches between idom(b) and b
        idom = cfg.idom()
        for b in cfg.rpo:
            if len(cfg.pred[b]) < 2 or b not in idom:
                continue
            top = idom[b]
            region = cfg.reachable_from(top)
            conds = []
            for x in region:
                sw = self.switch_terms.get((frame.key, x))
                if sw is not None and x != b or (sw is not None and x == b and b in cfg.loop_heads()):
                    if b in cfg.reachable_from(x):
                        conds.append(sw[0])
            # a loop head is also controlled by the loop's exit/continue tests inside the loop body
            self.ctrl[(frame.key, b)] = conds
        for b in cfg.rpo:
            if b not in in_states:
                continue
            facts = set()
            for (a, s), fl in edge_facts.items():
                if cfg.edge_dominates(a, s, b):
                    facts.update(fl)
            self.block_facts[(frame.key, b)] = frozenset(facts)

    def facts_at(self, frame_key, block):
        """all facts known to hold whenever control is at `block` of frame `frame_key` (incl. callers' facts)"""
        out = set()
        fk, b = frame_key, block
        while fk is not None:
            if isinstance(b, tuple) and b and b[0] == "m":
                out |= self.model_alt_facts.get((fk, b), frozenset())     # alternative built by a model at block b[1]
                b = b[1]
            out |= self.block_facts.get((fk, b), frozenset())
            fr = self.frames.get(fk)
            if fr is None:
                break
            out |= fr.ambient
            if fr.parent is None:
                break
            fk, b = fr.parent.key, fr.call_block
        return out

    # ---------------- block execution ----------------
    def exec_block(self, frame, b, state):
        fn = frame.fn
        blk = fn.blocks[b]
        self.cur = (frame, b)
        self.executed.add((fn.name, b))
        for si, s in enumerate(blk["s"]):
            if "l" in s:
                v = self.rvalue(state, frame, s["r"], (b, si), s)
                self.write_place(state, frame, s["l"], v, site=(b, si))
            elif "sd" in s:
                cur = self.read_place(state, frame, s["sd"])
                self.write_place(state, frame, s["sd"], mk("setdiscr", cur, s["v"]))
        t = blk["t"]
        if "goto" in t:
            return [t["goto"]]
        if "return" in t:
            return []
        if "switch" in t:
            d = self.operand(state, frame, t["switch"])
            self.switch_terms[(frame.key, b)] = (d, t["targets"], t["otherwise"])
            c = d.args[0] if d.op == "int" else None
            if c is not None:
                for v, tb in t["targets"]:
                    if int(v) == c:
                        return [tb]
                return [t["otherwise"]]
            # enum with a known set of alternatives: prune impossible variants
            succ = []
            poss = self.possible_discr(d)
            for v, tb in t["targets"]:
                if poss is None or int(v) in poss:
                    if tb not in succ:
                        succ.append(tb)
            if poss is None or any(p not in {int(v) for v, _ in t["targets"]} for p in poss):
                if t["otherwise"] not in succ and "unreachable" not in fn.blocks[t["otherwise"]]["t"]:
                    succ.append(t["otherwise"])
            return succ
        if "assert" in t:
            cond = self.operand(state, frame, t["assert"])
            mops = [self.operand(state, frame, o) for o in t["mops"]]
            self.events[(frame.key, b, "t")] = {
                "kind": "assert", "fn": fn.name, "frame": frame.key, "block": b, "at": t["at"], "x": t["x"],
                "cond": cond, "expected": t["expected"], "mk": t["mk"], "mops": mops}
            return [t["target"]]
        if "drop" in t:
            return [t["target"]]
        if "call" in t:
            return self.exec_call(frame, b, state, t)
        if "unreachable" in t or "resume" in t:
            return None
        self.note("unhandled terminator in %s: %s" % (fn.name, list(t.keys())))
        return None

    # ---------------- set-once cells holding the first element ----------------
    def detect_first_cells(self, frame):
        """H = loop-head join {None on entry, sl over the back edges}, sl = join {H, Some(x)} where the Some arrives only
        over an edge on which `H is None` holds and x is the current element of the loop's own iterator, which traverses a
        collection C completely and in order from its start: after the loop (and on every iteration after the
        assignment) the cell holds Some(C[0]) or is None iff C is empty."""
        cfg = frame.cfg
        heads = self._loop_heads(frame)
        if not heads:
            return
        from . import query as Q
        for key, inc in list(PHI.items()):
            if not (isinstance(key, tuple) and len(key) >= 3 and key[0] == frame.key and key[1] in heads and len(key) == 3):
                continue
            head = key[1]
            H = mk("phi", key)
            vals = list(inc.values())
            nones = [v for v in vals if v.op == "enum" and len(v.args[1]) == 1 and v.args[1][0][1] == "None"]
            backs = [v for v in vals if v.op == "phi" and v is not H]
            if len(nones) != 1 or not backs or len({b.id for b in backs}) != 1 or len(nones) + len(backs) != len(vals):
                continue
            sl = backs[0]
            sinc = PHI.get(sl.args[0]) or {}
            if len(sinc) != 2:
                continue
            keep = [p for p, v in sinc.items() if v is H]
            somes = [(p, v) for p, v in sinc.items() if v.op == "enum" and len(v.args[1]) == 1 and v.args[1][0][1] == "Some" and v.args[1][0][2]]
            if len(keep) != 1 or len(somes) != 1 or not isinstance(somes[0][0], int):
                continue
            pred, sv = somes[0]
            fs = Q.closure(self, self.block_facts.get((frame.key, pred), frozenset()))
            if not any(t.op == "discr" and t.args[0] is H and rel == "eq" and v == 0 for t, rel, v in fs):
                continue
            x = sv.args[1][0][2][0]
            e = x
            while e.op in ("refv", "deref") and len(e.args) == 1:
                e = e.args[0]
            if e.op != "elem" or len(e.args) < 2:
                continue
            site = e.args[1]
            nx = [ev for ev in self.events.values() if ev["kind"] == "call" and ev["frame"] == frame.key and
                  (ev.get("dname") or "").endswith("Iterator::next") and cfg.dominates(head, ev["block"]) and head in cfg.reachable_from(ev["block"])
                  and ev["argv"] and ev["argv"][0] is not None and Q.contains(ev["argv"][0], lambda z: z.op == "iter" and site in z.args[2:])]
            if len(nx) != 1:
                continue
            src = Q.whole_of(nx[0]["argv"][0], None, ordered=True)
            if src is None or src is not e.args[0]:
                continue
            FIRST_CELLS[H.id] = Q.substitute(x, e, index(src, Int(0, "usize")))

    # ---------------- helper-transparent view of frames ----------------
    def home_of(self, frame, b):
        """(frame key, block, function name) of the nearest enclosing frame whose function existed on the reference tree
        (sv/anchors.json `known`): a function that is new - an extracted private helper - is seen as part of its caller,
        at the block of the call.  Existing functions, their closures and trait impls keep their own identity."""
        from .facts import known_functions
        known = known_functions()
        n = 0
        while frame.parent is not None and n < 32:
            nm = frame.fn.name
            if not known or nm in known:
                break          # (a closure that did not exist on the reference tree is part of its enclosing function)
            frame, b = frame.parent, frame.call_block
            n += 1
        return frame.key, b, frame.fn.name

    # ---------------- correlation of a callee's writes with the alternative it returned ----------------
    def _lift(self, fk, b, target_fk):
        """block of frame target_fk in which (fk, b) lies (b itself, or the call block of the inlined chain)"""
        n = 0
        if isinstance(b, tuple) and b and b[0] == "m":
            b = b[1]
        while fk != target_fk and n < 64:
            fr = self.frames.get(fk)
            if fr is None or fr.parent is None:
                return None
            fk, b = fr.parent.key, fr.call_block
            n += 1
        return b if fk == target_fk else None

    def refine_on_edge(self, frame, p, b, st):
        """On the edge p -> b of a switch over the discriminant of an enum E returned by an inlined callee, a location
        whose value was joined at the callee's return join J is narrowed to the incoming values of those predecessors of
        J that can follow the creation site of the alternative selected by the edge (e.g. `let x = helper(&mut cur)?`:
        on the Some edge `cur` is the value the helper wrote on its Some path).  Sound: only incoming values of
        paths that cannot produce the selected alternative are dropped."""
        sw = self.switch_terms.get((frame.key, p))
        if sw is None:
            return st
        d, targets, otherwise = sw
        if not (d.op == "discr" and d.args[0].op == "enum"):
            return st
        E = d.args[0]
        vals = {int(v) for v, tb in targets if tb == b}
        if b == otherwise:
            vals |= {a[0] for a in E.args[1]} - {int(v) for v, _ in targets}
        return self.refine_state(frame, st, E, vals)

    def refine_state(self, frame, st, E, vals):
        """narrow the joined values of st to the paths on which the enum value E is one of the alternatives `vals`"""
        sel = [a for a in E.args[1] if a[0] in vals]
        rest = [a for a in E.args[1] if a[0] not in vals]
        if not sel or not rest or any(not a[4] for a in sel):
            return st
        def refine(v, depth=0):
            """v with joins made at a callee's return narrowed to the paths compatible with the selected alternative"""
            if depth > 4 or not is_t(v):
                return v
            if v.op == "refv":
                r = refine(v.args[0], depth + 1)
                return v if r is v.args[0] else mk("refv", r)
            if v.op == "agg" and not str(v.args[0]).startswith("closure"):
                fs = [refine(a, depth + 1) if is_t(a) else a for a in v.args[1:]]
                return v if all(x is y for x, y in zip(fs, v.args[1:])) else mk("agg", v.args[0], *fs)
            if v.op != "phi" or not isinstance(v.args[0], tuple) or len(v.args[0]) < 2:
                return v
            key = v.args[0]
            fk, J = key[0], key[1]
            fr = self.frames.get(fk) if isinstance(fk, str) else None
            if fr is None or fk == frame.key or not isinstance(J, int) or J in self._loop_heads(fr):
                return v
            inc = PHI.get(key) or {}
            if len(inc) < 2 or not all(isinstance(q, int) for q in inc):
                return v
            starts = []
            for a in sel:
                for (fo, bo) in a[4]:
                    bb = self._lift(fo, bo, fk)
                    if bb is None:
                        return v
                    starts.append(bb)
            if not starts:
                return v
            compat = set()
            for q in inc:
                for s0 in starts:
                    if q == s0 or q in fr.cfg.reachable_from(s0, avoid=(J,)):
                        compat.add(q)
            if not compat or len(compat) == len(inc):
                return v
            cvals = [inc[q] for q in compat]
            if any(c is not cvals[0] for c in cvals[1:]):
                return v
            return refine(cvals[0], depth + 1)        # the chosen value may itself be a join made in a deeper callee

        out = None
        for loc, v in st.items():
            nv = refine(v)
            if nv is not v:
                if out is None:
                    out = dict(st)
                out[loc] = nv
        return out if out is not None else st

    def possible_discr(self, d):
        if d.op == "discr" and d.args[0].op == "enum":
            return {a[0] for a in d.args[0].args[1]}
        return None

    def rvalue(self, state, frame, r, site, stmt):
        if "use" in r:
            return self.operand(state, frame, r["use"])
        if "ref" in r:
            return self.pointer_to(state, frame, r["ref"])
        if "bin" in r:
            a = self.operand(state, frame, r["a"])
            b = self.operand(state, frame, r["b"])
            ty = self.operand_ty(frame, r["a"])
            return binop(r["bin"], a, b, ty)
        if "un" in r:
            a = self.operand(state, frame, r["a"])
            u = r["un"]
            if u == "Not":
                if a.op == "int":
                    if a.args[1] == "bool":
                        return Int(1 - a.args[0], "bool")
                return mk("not", a)
            if u == "Neg":
                return mk("neg", a)
            if u.startswith("PtrMetadata"):
                ln = self.length(state, deref_value(self, state, a))
                ty = self.operand_ty(frame, r["a"])
                m = re.match(r"^&(?:'\w+ )?(?:mut )?\[(.+)\]$", ty or "")
                if ln.op == "len" and m:
                    self.len_elem[ln.id] = self.subst_ty(frame, m.group(1))
                return ln
            return mk("un_" + u, a)
        if "cast" in r:
            a = self.operand(state, frame, r["a"])
            k = r["cast"]
            to = r["to"]
            if k.startswith("IntToInt"):
                frm = self.operand_ty(frame, r["a"])
                if a.op == "int":
                    rng = int_range(to, self.usize_bits)
                    if rng and rng[0] <= a.args[0] <= rng[1]:
                        return Int(a.args[0], to)
                return mk("cast", a, frm, to)
            if k.startswith("PointerCoercion") or k.startswith("PtrToPtr"):
                return a
            if k.startswith("Transmute") and a.op in ("ref", "refv", "boxptr", "refo"):
                return a
            if "Unsize" in k or "MutToConstPointer" in k or "ReifyFnPointer" in k or "ClosureFnPointer" in k:
                return a
            return mk("castk", a, k, to)
        if "discr" in r:
            v = self.read_place(state, frame, r["discr"])
            if v.op == "enum" and len(v.args[1]) == 1:
                return Int(v.args[1][0][0], "isize")
            return mk("discr", v)
        if "repeat" in r:
            v = self.operand(state, frame, r["repeat"])
            m = re.match(r"^(\d+)", r["n"])
            n = Int(int(m.group(1))) if m else mk("constexpr", r["n"])
            return mk("from_elem", v, n)
        if "agg" in r:
            ops = [self.operand(state, frame, o) for o in r["ops"]]
            a = r["agg"]
            if a == "array":
                return mk("agg", "array", *ops)
            if a == "tuple":
                if not ops:
                    return mk("unit")
                return mk("agg", "tuple", *ops)
            if isinstance(a, dict) and "adt" in a:
                adt = a["adt"]
                if self.is_enum(adt, a["vname"]):
                    return enum1(adt, a["variant"], a["vname"], ops, origin=(frame.key, site[0]))
                return mk("agg", "adt:" + adt, *ops)
            if isinstance(a, dict) and "closure" in a:
                return mk("agg", "closure:" + a["closure"], *ops)
            return mk("agg", str(a), *ops)
        return mk("rv", str(r.get("rv")))

    def is_enum(self, adt, vname):
        if adt in KNOWN_ENUMS:
            return True
        last = adt.split("<")[0].split("::")[-1]
        return last != vname

    def operand_ty(self, frame, o):
        if "k" in o:
            return o["k"].get("ty", "?")
        p = o.get("c") or o.get("m")
        if p and not p[1]:
            return frame.fn.locals[p[0]]
        if p:
            # projection: only handle tuple field of checked arithmetic / simple cases
            return "?"
        return "?"

    def length(self, state, v):
        """len of a slice / array / vec value"""
        op = v.op
        if op == "bytes":
            return Int(len(v.args[0]) // 2)
        if op == "compress":
            return Int(32)          # CompressedRistretto is [u8; 32]
        if op == "formatted" and v.args and is_t(v.args[0]) and v.args[0].op == "fmtargs" and len(v.args[0].args) == 2 and \
                is_t(v.args[0].args[0]) and v.args[0].args[0].op == "bytes" and is_t(v.args[0].args[1]) and \
                v.args[0].args[1].op == "agg" and len(v.args[0].args[1].args) == 1:
            return Int(len(v.args[0].args[0].args[0]) // 2)      # format!("literal") with no arguments
        if op == "agg" and v.args[0] == "array":
            return Int(len(v.args) - 1)
        if op == "from_elem":
            return v.args[1]
        if op == "from_fn":
            return v.args[0]
        if op == "slice":
            # slice(base, lo, hi)
            return binop("Sub", v.args[2], v.args[1], "usize")
        if op == "vec_new":
            return Int(0)
        if op in ("updrng", "updidx"):
            return self.length(state, v.args[0])
        if op == "index":
            el = self.elem_len(state, v.args[0])
            if el is not None:
                return el
        if op == "inserted":
            return binop("Add", self.length(state, v.args[0]), Int(1), "usize")
        if op in ("collected", "cloned_iter"):
            return self.length(state, v.args[0])
        if op == "mapped":
            return self.length(state, v.args[0])
        if op == "range_iter" or (op == "agg" and v.args[0].endswith("ops::Range") and len(v.args) == 3):
            lo, hi = (v.args[0], v.args[1]) if op == "range_iter" else (v.args[1], v.args[2])
            if lo.op == "int" and hi.op == "int":
                return Int(max(0, hi.args[0] - lo.args[0]))
            return mk("range_len", lo, hi)
        if op == "iter":
            return self.length(state, v.args[0])
        if op == "owf":
            return v.args[2]       # Strobe output operations fill the whole buffer
        if op in ("elem", "index") and v.args[0].op == "chunks" and v.args[0].args[2] == "chunks_exact":
            return v.args[0].args[1]          # every chunk of chunks_exact(k) has exactly k elements
        if op == "copied":
            return v.args[1]
        if op == "as_array":
            return Int(v.args[1])
        if op == "bytes_of":
            return Int(v.args[1])
        if op == "bytes_of":
            n = v.args[1]
            if n is not None:
                return Int(n)
        return mk("len", v)

    # ---------------- calls ----------------
    def elem_len(self, state, v, _depth=0, _self=None):
        """common constant length of every element of an array / vector of byte strings (None if not uniform / unknown)"""
        if _depth > 6:
            return None
        op = v.op
        if op == "from_elem":
            r = self.length(state, v.args[0])
            return r if r.op == "int" else None
        if op == "agg" and v.args[0] == "array" and len(v.args) > 1:
            ls = [self.length(state, a) for a in v.args[1:]]
            return ls[0] if all(l.op == "int" and l.args[0] == ls[0].args[0] for l in ls) and ls[0].op == "int" else None
        if op == "updidx":
            a = self.elem_len(state, v.args[0], _depth + 1, _self)
            b = self.length(state, v.args[2])
            return a if a is not None and b.op == "int" and b.args[0] == a.args[0] else None
        if op == "phi":
            vals = [w for w in (PHI.get(v.args[0]) or {}).values() if w is not v and w is not _self]
            ls = []
            for w in vals:
                if w.op == "updidx" and w.args[0] is v:
                    ls.append(self.length(state, w.args[2]))
                else:
                    ls.append(self.elem_len(state, w, _depth + 1, v))
            if ls and all(l is not None and l.op == "int" and l.args[0] == ls[0].args[0] for l in ls):
                return ls[0]
            return None
        return None

    def size_of(self, ty, crate, _depth=0):
        """a LOWER bound (> 0) of size_of::<ty>() in bytes, or None when unknown / possibly zero-sized"""
        ty = ty.strip()
        prim = {"u8": 1, "i8": 1, "bool": 1, "u16": 2, "i16": 2, "u32": 4, "i32": 4, "char": 4, "u64": 8, "i64": 8,
                "u128": 16, "i128": 16, "usize": self.usize_bits // 8, "isize": self.usize_bits // 8}
        if ty in prim:
            return prim[ty]
        if _depth > 6:
            return None
        m = re.match(r"^\[(.+); (\d+)\]$", ty)
        if m:
            s = self.size_of(m.group(1), crate, _depth + 1)
            return s * int(m.group(2)) if s and int(m.group(2)) > 0 else None
        if ty.startswith("&") or ty.startswith("std::boxed::Box<"):
            return self.usize_bits // 8
        if ty.startswith(("std::vec::Vec<", "std::string::String")):
            return 3 * (self.usize_bits // 8)
        for cand in (crate + "::" + ty, ty):
            a = self.facts.adts.get(cand)
            if a is not None and len(a.get("variants", [])) == 1 and not a.get("generics"):
                tot = 0
                for f in a["variants"][0]["fields"]:
                    fs = self.size_of(f[1], a.get("crate", crate), _depth + 1)
                    if fs is None:
                        return None
                    tot += fs
                return tot or None
        return None

    def subst_ty(self, frame, s):
        """apply the frame's generic substitution to a printed type string; returns (string, crate)"""
        crate = frame.fn.crate
        if s in frame.subst:
            return frame.subst[s]
        if frame.subst:
            used = []

            def rep(m):
                w = m.group(0)
                if w in frame.subst:
                    used.append(frame.subst[w][1])
                    return frame.subst[w][0]
                return w
            s2 = re.sub(r"\b[A-Z][A-Za-z0-9_]*\b", rep, s)
            return (s2, used[0] if used else crate)
        return (s, crate)

    def find_impl_fn(self, method, self_ty, crate_hint, trait_prefix=None, trait_contains=None):
        """find a workspace impl method by self type (+ optional trait filter)"""
        cands = []

        def nolt(ty):
            """a type with its lifetime arguments removed (`Reader<'a>` in the impl header, `Reader<'_>` at the use)"""
            ty = re.sub(r"'[A-Za-z_]\w*\s*,\s*", "", ty or "")
            ty = re.sub(r"<'[A-Za-z_]\w*>", "", ty)
            return re.sub(r"'[A-Za-z_]\w* ", "", ty)
        self_ty = nolt(self_ty)
        for im in self.facts.impls:
            im_ty = nolt(im["self_ty"])
            full = im["crate"] + "::" + im_ty
            ok = (full == self_ty) or (im_ty == self_ty and im["crate"] == crate_hint)
            if not ok:
                # a type printed from inside its own crate has no crate prefix; from outside it has one
                if self_ty.endswith("::" + im_ty) and self_ty.split("::")[0] == im["crate"]:
                    ok = True
            if not ok:
                continue
            tr = im["trait"]
            if trait_prefix is not None and (tr is None or not tr.startswith(trait_prefix)):
                continue
            if trait_contains is not None and (tr is None or trait_contains not in tr):
                continue
            for name, path in im["items"]:
                if name == method and path in self.facts.fns:
                    cands.append(self.facts.fns[path])
        if len(cands) >= 1:
            return cands[0]
        return None

    def exec_call(self, frame, b, state, t):
        fn = frame.fn
        callee = t["call"]
        args = [self.operand(state, frame, a) for a in t["args"]]
        argv = [deref_value(self, state, a) if a.op in ("ref", "refv", "refo") else a for a in args]
        site = frame.key + "/" + str(b)
        call = {"frame": frame, "block": b, "site": site, "at": t["at"], "x": t["x"], "args": args,
                "term": t, "state": state}
        if "k" in callee and "fn" in callee["k"]:
            k = callee["k"]
            res = self.call_fn(call, k, args)
        else:
            # indirect call through a value (closure / fn pointer)
            fv = self.operand(state, frame, callee)
            res = self.invoke_value(call, fv, args)
        if res is not None and res.op == "enum" and any(not a[4] for a in res.args[1]):
            # an alternative built by a model (no creation site yet) exists from this call on: the facts that dominate the
            # call hold whenever it is selected (e.g. `c.verify(j).map(|()| c)` returned directly)
            alts = []
            for a in res.args[1]:
                if a[4]:
                    alts.append(a)
                    continue
                ob = ("m", b, a[0]) if a[3] else b       # a synthetic origin keeps the alternative's own facts with it
                if a[3]:
                    self.model_alt_facts[(frame.key, ob)] = frozenset(a[3])
                alts.append((a[0], a[1], a[2], a[3], frozenset([(frame.key, ob)])))
            res = mk("enum", res.args[0], tuple(alts))
        ev = {"kind": "call", "fn": fn.name, "frame": frame.key, "block": b, "at": t["at"], "x": t["x"],
              "callee": call.get("callee_name"), "dname": call.get("dname"), "args": args, "argv": argv, "result": res,
              "pre": call.get("pre"), "alloc_size": call.get("alloc_size"), "strobe_more": call.get("strobe_more"),
              "substs": call.get("substs"), "inlined": call.get("inlined", False), "model": call.get("model"),
              "local": call.get("local", False), "tc": call.get("tc", False), "diverges": t["target"] < 0,
              "post_facts": call.get("post_facts")}
        pr = call.get("post_refine")
        if pr is not None and res is not None and pr[0].op == "enum":
            # unwrap()/expect() returned: the value was the success alternative; what its producer wrote on that path holds
            ns = self.refine_state(frame, state, pr[0], {pr[1]})
            if ns is not state:
                for k_ in list(state.keys()):
                    if ns.get(k_) is not state[k_]:
                        state[k_] = ns[k_]
        ev["home"], ev["home_block"], ev["home_fn"] = self.home_of(frame, b)
        self.events[(frame.key, b, "t")] = ev
        self.cur = (frame, b)
        if res is None or t["target"] < 0:
            return None
        self.write_place(state, frame, t["dest"], res, site=(b, "call"))
        return [t["target"]]

    def call_fn(self, call, k, args):
        frame = call["frame"]
        name = k["name"]
        dname = k["dname"]
        substs = [self.subst_ty(frame, s) for s in k["substs"]]
        call["callee_name"] = name if k["local"] is False else None
        call["dname"] = dname
        call["substs"] = substs
        call["tc"] = k.get("tc", False)
        call["k"] = k
        target = None
        if k["fn"] in self.facts.fns:
            target = self.facts.fns[k["fn"]]
            # unresolved generic trait call inside a generic workspace fn resolves to the trait decl, not a body
        if k["how"] != "resolved" and k.get("trait"):
            # try to dispatch on the substituted Self type
            st = substs[0] if substs else None
            if st:
                method = dname.split("::")[-1]
                g = self.find_impl_fn(method, st[0], st[1], trait_contains=k["trait"].split("::")[-1].split("<")[0])
                if g is not None:
                    target = g
        if target is not None:
            call["callee_name"] = target.name
            call["local"] = True
        else:
            call["callee_name"] = name
        # 1. explicit model (by decl name, resolved name or workspace name)
        m = self.models.lookup(self, call, k, target)
        if m is not None:
            call["model"] = m.__name__
            self.used_models[m.__name__] = self.used_models.get(m.__name__, 0) + 1
            try:
                return m(self, call, args)
            except Unsupported:
                raise
            except Exception as e:   # a model that cannot handle this call shape: conservative default, recorded
                self.note("model %s failed on %s at %s (%s: %s): conservative default used"
                          % (m.__name__, call.get("callee_name"), call["at"], type(e).__name__, e))
                return self.models.default(self, call, k, args, target)
        # 2. inline workspace body
        if target is not None and target.kind == "Closure" and len(args) == 2:
            # a closure called through Fn/FnMut/FnOnce resolved to its own body: arguments arrive as one tuple
            tup = args[1]
            if tup.op == "agg" and tup.args[0] == "tuple":
                cargs = list(tup.args[1:])
            elif tup.op == "unit":
                cargs = []
            else:
                cargs = [tup]
            fv = args[0]
            if fv.op in ("ref", "refv", "refo"):
                fv = deref_value(self, call["state"], fv)
            return self.invoke_value(call, fv, cargs, tag="#call")
        if target is not None and target.kind in ("Fn", "AssocFn", "Closure") and not target.derived \
                and target.name not in self.opaque:
            return self.inline(call, target, args, substs)
        if target is not None and target.kind == "Ctor":
            adt = target.name
            return mk("agg", "adt:" + adt, *args)
        # 3. conservative default
        return self.models.default(self, call, k, args, target)

    def inline(self, call, target, args, substs=None, ambient=frozenset(), tag=""):
        frame = call["frame"]
        f = frame
        while f is not None:
            if f.fn is target and target.kind != "Closure":
                self.note("recursion through %s: unsupported" % target.name)
                return mk("ext", "recursive:" + target.name, *args)
            f = f.parent
        sub = {}
        if substs:
            tys = [s for s in substs if not s[0].startswith("'")]
            gens = target.generics
            if len(tys) >= len(gens):
                # generic args are listed parent-first, same as generics
                for g, s in zip(gens, tys[:len(gens)]):
                    sub[g] = s
        key = call["site"] + tag + "@" + target.name.split("::")[-1]
        fr = Frame(key, target, sub, frame, call["block"], ambient)
        call["inlined"] = True
        call["callee_name"] = target.name
        call["local"] = True
        state = call["state"]
        ret, out = self.run_frame(fr, state, args)
        if out is None:
            return None
        state.clear()
        state.update(out)
        # facts established on EVERY path through the callee (e.g. the exit condition of a retry loop) are statements about
        # values and stay true after it has returned
        rbs = [rb for rb in fr.cfg.return_blocks() if (key, rb) in self.block_facts]
        if rbs:
            common = None
            for rb in rbs:
                fs = self.block_facts.get((key, rb), frozenset())
                common = set(fs) if common is None else (common & set(fs))
            if common:
                call["post_facts"] = list(call.get("post_facts") or []) + sorted(common, key=lambda f: (f[0].id, str(f[1:])))
        return ret

    def invoke_value(self, call, fv, args, ambient=frozenset(), tag=""):
        """call a closure / fn item value with already-untupled args"""
        if fv.op == "refv":
            fv = fv.args[0]
        if fv.op == "ref":
            fv = self.load(call["state"], fv.args[0], fv.args[1])
        if fv.op == "agg" and fv.args[0].startswith("closure:"):
            path = fv.args[0][len("closure:"):]
            target = self.facts.fns.get(path)
            if target is None:
                return mk("ext", "closure?", *args)
            envty = target.locals[1]
            env = mk("refv", fv) if envty.startswith("&") else fv
            frame = call["frame"]
            sub = dict(frame.subst)
            call2 = dict(call)
            key_tag = tag
            fr_args = [env] + list(args)
            return self.inline_closure(call2, target, fr_args, sub, ambient, key_tag)
        if fv.op == "fnitem":
            path, name, substs = fv.args
            k = {"fn": path, "name": name, "dname": name, "how": "resolved", "substs": list(substs), "trait": None,
                 "local": path in self.facts.fns, "tc": False}
            call2 = dict(call)
            call2["site"] = call["site"] + tag
            return self.call_fn(call2, k, list(args))
        return mk("ext", "indirect", fv, *args)

    def inline_closure(self, call, target, args, sub, ambient, tag):
        frame = call["frame"]
        key = call["site"] + tag + "@" + target.path.split("::")[-1]
        fr = Frame(key, target, sub, frame, call["block"], ambient)
        state = call["state"]
        ret, out = self.run_frame(fr, state, args)
        if out is None:
            return None
        state.clear()
        state.update(out)
        return ret

    # value behind a pointer argument (slice / struct passed by reference)
    def pointee(self, call, p):
        return deref_value(self, call["state"], p)

    def assign_through(self, call, p, v):
        """store v into the location pointer p refers to (used by models for &mut arguments)"""
        state = call["state"]
        if p.op == "ref":
            self.store(state, p.args[0], p.args[1], v)
            return True
        if p.op == "phi":
            inc = PHI.get(p.args[0]) or {}
            ok = False
            for pred, q in inc.items():
                if q.op == "ref":
                    old = self.load(state, q.args[0], q.args[1])
                    self.store(state, q.args[0], q.args[1], self.join_values(("weakm", call["site"]), {0: old, 1: v}))
                    ok = True
            return ok
        self.note("model write through non-location pointer at %s" % call["at"])
        return False


def _same_state(a, b):
    if len(a) != len(b):
        return False
    for k, v in a.items():
        if b.get(k) is not v:
            return False
    return True
