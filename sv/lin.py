"""Linear arithmetic over SYM terms: normal forms and entailment by Fourier-Motzkin elimination.

A linear expression is (const, {atom_term: coeff}) over the rationals; atoms are opaque terms (lengths, decoded
integers, loop elements, ...).  Facts (term, rel, value) from dominating edges are translated into constraints
`expr <= 0` / `expr == 0`; an obligation is entailed when the constraint set together with the obligation's
negation is infeasible over the rationals (sound for integers: rational infeasibility implies integer
infeasibility).  Integer-specific strengthening: strict a < b over integers becomes a + 1 <= b.
"""
from fractions import Fraction

from .sym import int_range
from .terms import Term, is_t, mk


class Lin:
    __slots__ = ("c", "t")

    def __init__(self, c=0, t=None):
        self.c = Fraction(c)
        self.t = t or {}

    def add(self, o, k=1):
        t = dict(self.t)
        for a, v in o.t.items():
            nv = t.get(a, 0) + k * v
            if nv == 0:
                t.pop(a, None)
            else:
                t[a] = nv
        return Lin(self.c + k * o.c, t)

    def scale(self, k):
        if k == 0:
            return Lin(0)
        return Lin(self.c * k, {a: v * k for a, v in self.t.items()})

    def is_const(self):
        return not self.t

    def key(self):
        return (self.c, tuple(sorted((a.id, v) for a, v in self.t.items())))

    def __repr__(self):
        parts = ["%s*%s" % (v, repr(a)[:40]) for a, v in self.t.items()]
        return " + ".join([str(self.c)] + parts)


def atom(t):
    return Lin(0, {t: Fraction(1)})


class Ctx:
    """translation context: collects side constraints (ranges, definitions) for atoms it introduces"""

    def __init__(self, usize_bits=64):
        self.usize_bits = usize_bits
        self.side = []      # list of Lin meaning expr <= 0
        self.eqs = []       # list of Lin meaning expr == 0
        self.neqs = []      # list of Lin meaning expr != 0
        self.seen = set()

    def rng(self, t, lo, hi):
        if t.id in self.seen:
            return
        self.seen.add(t.id)
        a = atom(t)
        if lo is not None:
            self.side.append(Lin(lo).add(a, -1))       # lo - t <= 0
        if hi is not None:
            self.side.append(a.add(Lin(hi), -1))       # t - hi <= 0

    def lin(self, t):
        """linear form of an integer-valued term (opaque subterms become atoms with their type range)"""
        op = t.op
        if op == "int":
            return Lin(t.args[0])
        if op in ("add", "sub") and len(t.args) >= 2:
            a, b = self.lin(t.args[0]), self.lin(t.args[1])
            return a.add(b, 1 if op == "add" else -1)
        if op == "mul":
            a, b = self.lin(t.args[0]), self.lin(t.args[1])
            if a.is_const():
                return b.scale(a.c)
            if b.is_const():
                return a.scale(b.c)
        if op == "div" and t.args[1].op == "int" and t.args[1].args[0] > 0:
            # q = n / k  (unsigned):  k*q <= n <= k*q + k - 1
            k = t.args[1].args[0]
            n = self.lin(t.args[0])
            q = atom(t)
            if t.id not in self.seen:
                self.seen.add(t.id)
                self.side.append(q.scale(k).add(n, -1))                       # k*q - n <= 0
                self.side.append(n.add(q.scale(k), -1).add(Lin(k - 1), -1))   # n - k*q - (k-1) <= 0
                self.side.append(q.scale(-1))                                 # -q <= 0
            return q
        if op == "cast":
            inner, frm, to = t.args
            r_from = int_range(frm, self.usize_bits)
            r_to = int_range(to, self.usize_bits)
            if r_from and r_to and r_to[0] <= r_from[0] and r_from[1] <= r_to[1]:
                x = self.lin(inner)         # widening: value preserved
                self._typed(inner, frm)
                return x
            # narrowing: fresh value in the target range
            if r_to:
                self.rng(t, r_to[0], r_to[1])
            return atom(t)
        if op == "conv" and len(t.args) == 1:
            return self.lin(t.args[0])
        if op == "len":
            st = self._struct_len(t.args[0])
            if st is not None:
                if t.id not in self.seen:
                    self.seen.add(t.id)
                    # the vector exists, so its total length is an allocation size in elements
                    self.side.append(st.add(Lin(2 ** (self.usize_bits - 1) - 1), -1))
                    self.side.append(st.scale(-1))
                return st
            first = t.id not in self.seen
            self.rng(t, 0, 2 ** (self.usize_bits - 1) - 1)
            v = t.args[0]
            if first and v.op == "subset":
                # in-place filtering / reordering never grows the vector
                self.side.append(atom(t).add(self.lin(mk("len", v.args[0])), -1))
            return atom(t)
        if op == "int_of":
            w = window(t.args[0])
            if w is not None:
                base, lo, hi = w
                c = mk("hdr", base, self.lin(lo).key(), self.lin(hi).key(), t.args[1], t.args[2])
                r = int_range(t.args[1], self.usize_bits)
                if r:
                    self.rng(c, r[0], r[1])
                return atom(c)
            ty = t.args[1]
            r = int_range(ty, self.usize_bits)
            if r:
                self.rng(t, r[0], r[1])
            return atom(t)
        if op == "range_elem":
            # lo <= e < hi
            if t.id not in self.seen:
                self.seen.add(t.id)
                e = atom(t)
                self.side.append(self.lin(t.args[0]).add(e, -1))
                self.side.append(e.add(Lin(1)).add(self.lin(t.args[1]), -1))
            return atom(t)
        if op == "iter_position":
            self.rng(t, 0, None)
            return atom(t)
        if op in ("len_iter",):
            first = t.id not in self.seen
            self.rng(t, 0, 2 ** (self.usize_bits - 1) - 1)
            if first:
                # an iterator yields at most as many items as each of its sources holds
                stack = [t.args[0]]
                while stack:
                    it = stack.pop()
                    if not is_t(it):
                        continue
                    if it.op == "zipped":
                        stack.extend(it.args[:2])
                    elif it.op in ("mapped", "filtered", "cloned_iter", "adapted", "enumerated"):
                        stack.append(it.args[0])
                    elif it.op == "iter":
                        src = it.args[0]
                        if src.op == "agg" and src.args[0] == "array":
                            self.side.append(atom(t).add(Lin(len(src.args) - 1), -1))
                        elif src.op == "chunks":
                            # at most one chunk per element of the chunked sequence (chunk size >= 1)
                            self.side.append(atom(t).add(self.lin(mk("len", src.args[0])), -1))
                        else:
                            self.side.append(atom(t).add(self.lin(mk("len", src)), -1))
            return atom(t)
        if op == "field" or op == "payload" or op == "param" or op == "phi" or op == "index" or op == "deref":
            return atom(t)
        return atom(t)

    def _struct_len(self, v, depth=0):
        """length of a byte / element vector from its construction (None: keep the opaque len atom): appends add up, a
        fold or loop that appends a constant number of bytes per element contributes that constant times the number of
        elements iterated (bounded by the lengths of the iterator's sources)"""
        while is_t(v) and v.op in ("refv", "conv") and len(v.args) == 1:
            v = v.args[0]
        if not is_t(v) or depth > 12:
            return None
        op = v.op
        if op == "append" or op == "push":
            a = self._struct_len(v.args[0], depth + 1)
            if a is None:
                a = self.lin(mk("len", v.args[0])) if v.args[0].op not in ("append", "push") else None
            if a is None:
                return None
            if op == "push":
                return a.add(Lin(1))
            b = self._struct_len(v.args[1], depth + 1)
            if b is None:
                b = self.lin(mk("len", v.args[1]))
            return a.add(b)
        if op == "vec_new":
            return Lin(0)
        if op == "bytes":
            return Lin(len(v.args[0]) // 2)
        if op == "agg" and v.args[0] == "array":
            return Lin(len(v.args) - 1)
        if op in ("bytes_of", "as_array") and isinstance(v.args[1], int):
            return Lin(v.args[1])
        if op == "fp_to_repr" and getattr(self, "repr_len", None):
            return Lin(self.repr_len)
        if op in ("from_elem", "copied"):
            return self.lin(v.args[1])
        if op == "owf":
            return self.lin(v.args[2])
        if op == "collected" and v.args[0].op == "mapped":
            return None
        if op in ("index", "elem") and is_t(v.args[0]) and v.args[0].op == "phi":
            # an element of a vector that is filled by one push per loop iteration: every element has the pushed value's length
            from . import query as Q
            pr = Q.parts_of(v.args[0])
            if len(pr) == 1 and pr[0][0] == "repeat" and len(pr[0][1]) == 1 and pr[0][1][0][0] == "byte" and is_t(pr[0][1][0][1]):
                per = self._struct_len(pr[0][1][0][1], depth + 1)
                if per is not None and per.is_const():
                    return per
            return None
        if op == "fold" and len(v.args) == 4:
            init, body, it, acc = v.args
            if init.op == "vec_new" and body.op == "append" and body.args[0] is acc:
                per = self._struct_len(body.args[1], depth + 1)
                if per is None and body.args[1].op == "elem":
                    # elements of a collected map: each has the structural length of the mapped body
                    src = body.args[1].args[0]
                    while is_t(src) and src.op in ("collected", "iter", "refv"):
                        src = src.args[0]
                    if is_t(src) and src.op == "mapped":
                        per = self._struct_len(src.args[1], depth + 1)
                if per is not None and per.is_const():
                    return self.lin(mk("len_iter", it)).scale(per.c)
        return None

    def _typed(self, t, ty):
        r = int_range(ty, self.usize_bits)
        if r and t.op not in ("int",):
            a = self.lin(t)
            if len(a.t) == 1 and a.c == 0:
                (k, v), = a.t.items()
                if v == 1:
                    self.rng(k, r[0], r[1])

    # ---- facts -> constraints ----------------------------------------------------------------------------
    def add_fact(self, f):
        """translate a (term, rel, value) fact into linear constraints when it is a comparison"""
        t, rel, v = f
        if rel != "eq" or v not in (0, 1):
            return
        op = t.op
        if op in ("lt", "le", "gt", "ge", "eq", "ne") and len(t.args) == 2:
            a, b = self.lin(t.args[0]), self.lin(t.args[1])
            d = a.add(b, -1)            # a - b
            neg = {"lt": "ge", "le": "gt", "gt": "le", "ge": "lt", "eq": "ne", "ne": "eq"}
            o = op if v == 1 else neg[op]
            if o == "lt":
                self.side.append(d.add(Lin(1)))          # a - b + 1 <= 0
            elif o == "le":
                self.side.append(d)
            elif o == "gt":
                self.side.append(d.scale(-1).add(Lin(1)))
            elif o == "ge":
                self.side.append(d.scale(-1))
            elif o == "eq":
                self.eqs.append(d)
            elif o == "ne":
                self.neqs.append(d)
            return
        if op == "iter_empty" and v == 0:
            # a non-empty chunks_exact(k) iteration over all of `base`: len(base) >= k
            it = t.args[0]
            src = it.args[0] if is_t(it) and it.op == "iter" else None
            if is_t(src) and src.op == "chunks" and src.args[2] == "chunks_exact" and is_t(src.args[1]) and src.args[1].op == "int":
                self.side.append(Lin(src.args[1].args[0]).add(self.lin(mk("len", src.args[0])), -1))
            return
        if op == "range_ok" and v == 1:
            lo, hi, n = (self.lin(x) for x in t.args)
            self.side.append(lo.add(hi, -1))
            self.side.append(hi.add(n, -1))
            return
        if op == "no_ovf" and v == 1:
            kind, a, b, ty = t.args
            r = int_range(ty, self.usize_bits)
            if r and kind in ("add", "sub"):
                e = self.lin(a).add(self.lin(b), 1 if kind == "add" else -1)
                self.side.append(e.add(Lin(r[1]), -1))
                self.side.append(Lin(r[0]).add(e, -1))
            return
        if op == "fits" and v == 1:
            r = int_range(t.args[1], self.usize_bits)
            if r:
                e = self.lin(t.args[0])
                self.side.append(e.add(Lin(r[1]), -1))
                self.side.append(Lin(r[0]).add(e, -1))
        if op == "fits" and v == 0:
            # does not fit an unsigned target: for a value known to be >= 0 that means value >= max + 1
            r = int_range(t.args[1], self.usize_bits)
            if r and r[0] == 0:
                e = self.lin(t.args[0])
                if infeasible(self.side + [e.add(Lin(1))]):        # e >= 0 entailed by what is known so far
                    self.side.append(Lin(r[1] + 1).add(e, -1))

    def constraints(self):
        out = list(self.side)
        for e in self.eqs:
            out.append(e)
            out.append(e.scale(-1))
        # integer disequalities: d != 0 with d >= 0 entailed gives d >= 1 (and symmetrically); iterate to a fixpoint
        pending = list(self.neqs)
        changed = True
        while changed and pending:
            changed = False
            for d in list(pending):
                if infeasible(out + [Lin(1).add(d.scale(-1), -1)]) if False else False:
                    pass
                # d >= 0 entailed?  (negation d <= -1 infeasible)
                if infeasible(out + [d.add(Lin(1))]):
                    out.append(Lin(1).add(d, -1))        # 1 - d <= 0
                    pending.remove(d)
                    changed = True
                elif infeasible(out + [d.scale(-1).add(Lin(1))]):   # d <= 0 entailed
                    out.append(d.add(Lin(1)))            # d + 1 <= 0
                    pending.remove(d)
                    changed = True
        self.open_neqs = pending
        return out


def _eliminate(cons, var):
    pos, neg, rest = [], [], []
    for c in cons:
        k = c.t.get(var)
        if k is None:
            rest.append(c)
        elif k > 0:
            pos.append(c)
        else:
            neg.append(c)
    for p in pos:
        for n in neg:
            kp, kn = p.t[var], -n.t[var]
            r = p.scale(kn).add(n.scale(kp))
            r.t.pop(var, None)
            rest.append(r)
    return rest


def infeasible(cons, limit=4000):
    """Fourier-Motzkin: True iff the system {c <= 0} has no rational solution"""
    cons = list(cons)
    # dedupe
    def dd(cs):
        seen = {}
        for c in cs:
            seen[c.key()] = c
        return list(seen.values())
    cons = dd(cons)
    while True:
        for c in cons:
            if c.is_const() and c.c > 0:
                return True
        vars_ = {}
        for c in cons:
            for a in c.t:
                vars_[a] = vars_.get(a, 0) + 1
        if not vars_:
            return False
        # pick the variable with the smallest pos*neg product
        best = None
        for a in vars_:
            p = sum(1 for c in cons if c.t.get(a, 0) > 0)
            n = sum(1 for c in cons if c.t.get(a, 0) < 0)
            cost = p * n - p - n
            if best is None or cost < best[0]:
                best = (cost, a)
        cons = dd(_eliminate(cons, best[1]))
        cons = [c for c in cons if not (c.is_const() and c.c <= 0)]
        if len(cons) > limit:
            return False   # give up: not proven


def entails(ctx, goal_le):
    """does the context entail goal_le <= 0 ?   (negation: goal_le >= 1 over integers, i.e. 1 - goal_le <= 0)"""
    cons = ctx.constraints() + [Lin(1).add(goal_le, -1)]
    return infeasible(cons)


def inconsistent(ctx):
    """is the fact set itself infeasible (including a disequality whose equality is entailed)?"""
    cons = ctx.constraints()
    if infeasible(cons):
        return True
    for d in getattr(ctx, "open_neqs", []):
        if infeasible(cons + [Lin(1).add(d, -1)]) and infeasible(cons + [d.add(Lin(1))]):
            return True      # d == 0 entailed but d != 0 required
    return False


def same_value(ctx, a, b):
    """normal forms equal (syntactic linear equality)"""
    la, lb = ctx.lin(a), ctx.lin(b)
    return la.add(lb, -1).is_const() and la.add(lb, -1).c == 0


def window(t):
    """(base value, lo term, hi term) when t designates a contiguous window of a base sequence"""
    while is_t(t) and t.op in ("refv", "copied", "as_array", "conv"):
        t = t.args[0]
    if is_t(t) and t.op == "slice":
        return t.args[0], t.args[1], t.args[2]
    if is_t(t) and t.op == "index" and is_t(t.args[0]) and t.args[0].op == "chunks" and t.args[0].args[2] == "chunks_exact" and \
            is_t(t.args[0].args[1]) and t.args[0].args[1].op == "int" and is_t(t.args[1]) and t.args[1].op == "int":
        # chunk number i (a constant) of base.chunks_exact(k): bytes [k*i, k*i + k)
        k, i = t.args[0].args[1].args[0], t.args[1].args[0]
        return t.args[0].args[0], mk("int", k * i, "usize"), mk("int", k * i + k, "usize")
    return None
