"""Queries over SYM terms: dependency leaves, clear-text (raw) atoms, accumulator traces, event search."""
from .terms import FIRST_CELLS, PHI, Term, is_t, mk, show, subterms

# ops that only re-present their operand (encodings, views, copies, projections): never one-way
# (everything that is not in ONEWAY is traversed by raw())
ONEWAY = {"owf"}


def path_of(t):
    """access path string when t is a projection chain over a root parameter, else None"""
    parts = []
    while True:
        op = t.op
        if op == "param":
            parts.append(str(t.args[0]))
            break
        if op == "field":
            parts.append(str(t.args[1]))
            t = t.args[0]
        elif op == "payload":
            if t.args[0].op == "phi" and t.args[0].id in FIRST_CELLS and t.args[1:] == (1, 0):
                t = FIRST_CELLS[t.args[0].id]        # payload of a set-once "first element" cell
                continue
            parts.append("v%d.%d" % (t.args[1], t.args[2]))
            t = t.args[0]
        elif op in ("deref", "refv", "conv"):
            t = t.args[0]
        elif op == "ref" and isinstance(t.args[0], tuple) and len(t.args[0]) == 2 and t.args[0][0] == "param" and \
                all(isinstance(e, tuple) and e and e[0] == "f" for e in t.args[1]):
            # a pointer into a root parameter's pointee: &param.f.g
            for e in reversed(t.args[1]):
                parts.append(str(e[1]))
            parts.append(str(t.args[0][1]))
            break
        elif op == "peeked":
            # the element an un-advanced iterator stands on: the first element
            parts.append("first")
            t = t.args[0]
            while t.op in ("refv", "deref"):
                t = t.args[0]
            if t.op == "elem":
                t = t.args[0]
        elif op == "elem":
            parts.append("*")
            t = t.args[0]
        elif op == "index":
            i = t.args[1]
            k = i.args[0] if is_t(i) and i.op == "int" else None
            parts.append("first" if k == 0 else (str(k) if k is not None else "*"))
            t = t.args[0]
        elif op == "iter":
            t = t.args[0]
        elif op in ("cloned_iter", "adapted", "collected", "subset"):
            t = t.args[0]
        else:
            return None
    return ".".join(reversed(parts))


def origin_block(b):
    """CFG block of an alternative's origin (model-built alternatives carry a synthetic origin ("m", block, idx))"""
    return b[1] if isinstance(b, tuple) and b and b[0] == "m" else b


def raw_children(x):
    """operands whose content is (part of) the value of x; iterator sources of map/fold only contribute their
    length, not their content"""
    op = x.op
    if op == "mapped":
        return (x.args[1],)
    if op == "fold":
        return (x.args[0], x.args[1])
    if op in ("len", "len_iter", "iter_empty"):
        return ()
    return x.args


def atoms(t, stop_ops=(), seen=None):
    """set of atoms reachable from t: ('param', path) ('rng', kind, site, what) ('bytes', hex) ('fn', name).
    Traversal does not descend below ops in stop_ops (used by raw())."""
    out = set()
    seen = set() if seen is None else seen
    stack = [t]
    while stack:
        x = stack.pop()
        if isinstance(x, (tuple, frozenset, list)):
            stack.extend(x)
            continue
        if not isinstance(x, Term) or x.id in seen:
            continue
        seen.add(x.id)
        op = x.op
        if op in stop_ops or ("fold" in stop_ops and op == "phi" and is_loop_acc(x)):
            continue
        p = path_of(x)
        if p is not None:
            out.add(("param", p))
            continue
        if op == "payload" and x.args[0].op == "phi" and x.args[0].id in FIRST_CELLS and x.args[1:] == (1, 0):
            stack.append(FIRST_CELLS[x.args[0].id])
            continue
        if op == "len" and path_of(x.args[0]) is not None:
            out.add(("len", path_of(x.args[0])))
            continue
        if op == "rng":
            out.add(("rng", x.args[0], x.args[1], x.args[2]))
            stack.append(x.args[3])
            continue
        if op == "bytes":
            out.add(("bytes", x.args[0]))
            continue
        if op == "phi":
            inc = PHI.get(x.args[0])
            if inc:
                stack.extend(inc.values())
            continue
        if op == "ref":
            out.add(("loc", x.args[0]))
            continue
        if op == "range_elem":
            out.add(("loop", str(x.args[2])))
        if op == "undef":
            continue
        stack.extend(raw_children(x) if stop_ops else x.args)
    return out


def leaves(t):
    """everything t may depend on through data flow"""
    return atoms(t)


def phi_site(eng, key):
    """(frame_key, block) of a phi key, looking through derived-key prefixes"""
    for i in range(len(key) - 1):
        if isinstance(key[i], str) and key[i] in eng.frames and isinstance(key[i + 1], (int, str)):
            return (key[i], key[i + 1])
    return None


def leaves_cd(eng, t, enum_origins=False):
    """data dependences plus control dependences: for every phi reached, the conditions that decide which
    incoming value it takes (switch discriminants between the merge's immediate dominator and the merge)"""
    out = set()
    seen = set()
    stack = [t]
    while stack:
        x = stack.pop()
        if isinstance(x, (tuple, frozenset, list)):
            stack.extend(x)
            continue
        if not isinstance(x, Term) or x.id in seen:
            continue
        seen.add(x.id)
        p = path_of(x)
        if p is not None:
            out.add(("param", p))
            continue
        op = x.op
        if op == "rng":
            out.add(("rng", x.args[0], x.args[1], x.args[2]))
            stack.append(x.args[3])
            continue
        if op == "bytes":
            out.add(("bytes", x.args[0]))
            continue
        if op == "phi":
            inc = PHI.get(x.args[0])
            if inc:
                stack.extend(inc.values())
            site = phi_site(eng, x.args[0])
            if site is not None:
                stack.extend(eng.ctrl.get(site, ()))
            continue
        if op in ("ref", "undef"):
            continue
        if op == "enum" and enum_origins:
            # which alternative a partitioned value takes is decided by the conditions under which each was built
            # (all dominating conditions: a superset of the control dependence - use only for must-not-depend rules
            # about success/failure, not for "and nothing else" rules about values)
            for alt in x.args[1]:
                for f in alt[3]:
                    stack.append(f[0])
                for (fk, b) in alt[4]:
                    for f in eng.facts_at(fk, b):
                        stack.append(f[0])
        stack.extend(x.args)
    return out


def raw(t, oneway=ONEWAY):
    """atoms contained in t in the clear (not under a one-way operation)"""
    return atoms(t, stop_ops=oneway)


def params(as_):
    return {a[1] for a in as_ if a[0] == "param"}


def rngs(as_):
    return {a for a in as_ if a[0] == "rng"}


def consts(as_):
    out = set()
    for a in as_:
        if a[0] == "bytes":
            try:
                out.add(bytes.fromhex(a[1]).decode("latin1"))
            except Exception:
                out.add(a[1])
    return out


def contains(t, pred):
    for x in subterms(t):
        if pred(x):
            return True
    return False


def find_all(t, pred):
    return [x for x in subterms(t) if pred(x)]


# ---------------------------------------------------------------------------------------------------------
# Strobe traces
# ---------------------------------------------------------------------------------------------------------
def trace_of(t, _stack=()):
    """normalise a strobe state term into a list of items:
       ('new', label) ('op', kind, data) ('repeat', [items]) ('alt', [[items]...]) ('base', term)"""
    ops = []
    cur = t
    while True:
        if not is_t(cur):
            ops.append(("base", cur))
            break
        # look through wrappers: StrobeRng { strobe }, clones
        if cur.op == "agg" and cur.args[0].endswith("StrobeRng") and len(cur.args) == 2:
            cur = cur.args[1]
            continue
        if cur.op == "sop":
            ops.append(("op", cur.args[1], cur.args[2]))
            cur = cur.args[0]
            continue
        if cur.op == "field" and is_t(cur.args[0]) and cur.args[0].op == "phi":
            # the transcript lives in a field of a (newtype) struct that is carried around a loop as a whole
            nxt = field_of_join(cur)
            if nxt is not cur:
                cur = nxt
                continue
        if cur.op == "agg" and len(cur.args) == 2 and str(cur.args[0]).startswith("adt:") and is_t(cur.args[1]) and \
                cur.args[1].op in ("sop", "strobe_new", "phi", "field", "agg"):
            cur = cur.args[1]          # a private newtype around the Strobe state
            continue
        if cur.op == "strobe_new":
            ops.append(("new", cur.args[0]))
            break
        if cur.op == "phi":
            key = cur.args[0]
            if key in _stack:
                ops.append(("loopback", key))
                break
            inc = PHI.get(key) or {}
            bases = []
            loops = []
            for pred, v in inc.items():
                tr = trace_of(v, _stack + (key,))
                if tr and tr[0] == ("loopback", key):
                    loops.append(tr[1:])
                else:
                    bases.append(tr)
            uniq = []
            for b in bases:
                if b not in uniq:
                    uniq.append(b)
            pre = []
            if len(uniq) == 1:
                pre = list(uniq[0])
            elif uniq:
                pre = [("alt", uniq)]
            for l in loops:
                pre.append(("repeat", l))
            return pre + ops[::-1]
        ops.append(("base", cur))
        break
    return ops[::-1]


def show_trace(tr, depth=5):
    out = []
    for it in tr:
        if it[0] == "new":
            out.append("new(%s)" % show(it[1], depth))
        elif it[0] == "op":
            out.append("%s(%s)" % (it[1], show(it[2], depth)))
        elif it[0] == "repeat":
            out.append("repeat[%s]" % show_trace(it[1], depth))
        elif it[0] == "alt":
            out.append("alt{%s}" % " | ".join(show_trace(x, depth) for x in it[1]))
        else:
            out.append("%s(%s)" % (it[0], show(it[1], 2)))
    return " . ".join(out)


def flat_ops(tr):
    """flatten a trace into a list of (kind, data, in_repeat) ignoring alt structure (each alt branch inlined)"""
    out = []
    for it in tr:
        if it[0] == "op":
            out.append((it[1], it[2], False))
        elif it[0] == "new":
            out.append(("new", it[1], False))
        elif it[0] == "repeat":
            for k, d, _ in flat_ops(it[1]):
                out.append((k, d, True))
        elif it[0] == "alt":
            out.append(("alt", tuple(tuple(flat_ops(x)) for x in it[1]), False))
        else:
            out.append((it[0], it[1], False))
    return out


# ---------------------------------------------------------------------------------------------------------
# byte-vector construction traces
# ---------------------------------------------------------------------------------------------------------
def field_of_join(t):
    """field(phi, n) - a field of a struct that is carried around a loop as a whole (e.g. `struct Transcript(Vec<u8>)`
    appended to in a loop) - seen as the join of that field over the incoming struct values"""
    n = 0
    while is_t(t) and t.op == "field" and is_t(t.args[0]) and t.args[0].op == "phi" and n < 4:
        from .sym import field as sym_field
        ph, fn_ = t.args
        key2 = tuple(ph.args[0]) + (("fld", fn_),)
        inc = PHI.get(ph.args[0]) or {}
        new = {p: sym_field(v, fn_) for p, v in inc.items()}
        if PHI.get(key2) != new:
            PHI[key2] = new
        t = mk("phi", key2)
        n += 1
    return t


def parts_of(t, _stack=()):
    """ordered parts of a Vec<u8> built by push/append: list of ('part', term) / ('repeat', [...]) / ('base', t)"""
    parts = []
    cur = t
    while True:
        cur = field_of_join(cur)
        if cur.op == "append":
            parts.append(("part", cur.args[1]))
            cur = cur.args[0]
            continue
        if cur.op == "push":
            parts.append(("byte", cur.args[1]))
            cur = cur.args[0]
            continue
        if cur.op == "vec_new":
            break
        if cur.op == "updrng" and cur.args[0].op == "from_elem" and all(is_t(x) and x.op == "int" for x in (cur.args[0].args[0], cur.args[0].args[1], cur.args[1], cur.args[2])) \
                and cur.args[0].args[0].args[0] == 0:
            # a zeroed fixed-size buffer with `val` copied into [lo, hi): zeros . val . zeros
            n, lo, hi = cur.args[0].args[1].args[0], cur.args[1].args[0], cur.args[2].args[0]
            zero = cur.args[0].args[0]
            seqp = []
            if lo > 0:
                seqp.append(("part", mk("from_elem", zero, mk("int", lo, "usize"))))
            seqp.append(("part", cur.args[3]))
            if n - hi > 0:
                seqp.append(("part", mk("from_elem", zero, mk("int", n - hi, "usize"))))
            parts.extend(reversed(seqp))
            break
        if cur.op == "from_fn":
            parts.append(("repeat", [("byte", cur.args[1])]))      # array::from_fn(|i| X(i)): element i is X(i)
            break
        if cur.op == "collected" and cur.args[0].op == "chained":
            # a.chain(b).collect(): everything a yields, then everything b yields
            def halves(x):
                if x.op == "chained":
                    return halves(x.args[0]) + halves(x.args[1])
                return [x]
            seqp = []
            for h in halves(cur.args[0]):
                if h.op == "iter" and h.args[0].op == "agg" and h.args[0].args[0] == "array":
                    for a in h.args[0].args[1:]:
                        seqp.append(("byte", a))          # iter::once(x) / [x, y].into_iter(): single elements
                else:
                    seqp.append(("part", mk("collected", h)))
            parts.extend(reversed(seqp))
            break
        if cur.op == "collected" and cur.args[0].op == "flat_mapped":
            # outer.flat_map(|e| seq(e)).collect(): the concatenation of seq(e) over the elements of outer
            outer, body = cur.args[0].args

            def seq(x):
                if x.op == "chained":
                    return seq(x.args[0]) + seq(x.args[1])
                while x.op in ("cloned_iter", "refv") or (x.op == "adapted" and x.args[1] in LENGTH_PRESERVING_ADAPTORS and x.args[1] != "rev"):
                    x = x.args[0]
                if x.op == "iter":
                    x = x.args[0]
                return [("part", x)]
            inner = seq(body)
            ones = {}
            for q in inner:
                for o in find_all(q[1], lambda z: z.op == "oneof"):
                    ones[o.id] = o
            src = outer.args[0] if outer.op == "iter" else None
            lit = src is not None and src.op == "agg" and src.args[0] == "array"
            if lit and len(ones) == 1 and len(list(ones.values())[0].args) == len(src.args) - 1:
                o = list(ones.values())[0]
                exp = []
                for a in o.args:
                    exp += [(q[0], substitute(q[1], o, a)) for q in inner]
                parts.extend(reversed(exp))
            elif lit and len(src.args) == 2 and not ones:
                parts.extend(reversed(inner))
            else:
                parts.append(("repeat", inner))
            break
        if cur.op == "phi":
            key = cur.args[0]
            if key in _stack:
                parts.append(("loopback", key))
                break
            inc = PHI.get(key) or {}
            # an array overwritten element by element by a loop over all its positions: a[i] = X(i) for i in 0..n
            upd = [v for v in inc.values() if v.op == "updidx" and v.args[0] is cur and is_t(v.args[1]) and v.args[1].op == "range_elem"]
            init = [v for v in inc.values() if not (v.op == "updidx" and v.args[0] is cur) and v is not cur]
            if len(upd) == 1 and len({v.id for v in init}) == 1 and init[0].op in ("from_elem", "agg"):
                pos = upd[0].args[1]
                full = is_t(pos.args[0]) and pos.args[0].op == "int" and pos.args[0].args[0] == 0
                if full:
                    return [("repeat", [("byte", upd[0].args[2])])] + parts[::-1]
            bases, loops = [], []
            for pred, v in inc.items():
                pr = parts_of(v, _stack + (key,))
                if pr and pr[0] == ("loopback", key):
                    loops.append(pr[1:])
                else:
                    bases.append(pr)
            uniq = []
            for b in bases:
                if b not in uniq:
                    uniq.append(b)
            pre = list(uniq[0]) if len(uniq) == 1 else ([("alt", uniq)] if uniq else [])
            for l in loops:
                if l:                      # a loop path that appends nothing contributes nothing
                    pre.append(("repeat", l))
            return pre + parts[::-1]
        parts.append(("base", cur))
        break
    return parts[::-1]


# ---------------------------------------------------------------------------------------------------------
# events
# ---------------------------------------------------------------------------------------------------------
def calls(eng, callee_sub=None, in_fn=None, frame_prefix=None):
    out = []
    for k, ev in eng.events.items():
        if ev["kind"] != "call":
            continue
        if callee_sub is not None and callee_sub not in (ev.get("callee") or "") and callee_sub not in (ev.get("dname") or ""):
            continue
        if in_fn is not None and ev.get("home_fn", ev["fn"]) != in_fn:      # new helpers are part of their caller
            continue
        if frame_prefix is not None and not ev["frame"].startswith(frame_prefix):
            continue
        out.append(ev)
    out.sort(key=lambda e: (e["frame"], e["block"]))
    return out


def variant(ret, idx):
    """(fields, facts, origins) of alternative idx of an enum value, or None"""
    if ret is None or ret.op != "enum":
        return None
    for a in ret.args[1]:
        if a[0] == idx:
            return a
    return None


# ---------------------------------------------------------------------------------------------------------
# facts
# ---------------------------------------------------------------------------------------------------------
def norm_fact(f):
    """normalise (term, rel, value) facts: strip boolean negation / conversions"""
    t, rel, v = f
    while True:
        if t.op == "not" and rel == "eq" and v in (0, 1):
            t, v = t.args[0], 1 - v
            continue
        if t.op in ("choice_bool", "conv") and len(t.args) == 1:
            t = t.args[0]
            continue
        if t.op == "choice" and rel == "eq" and v in (0, 1):
            # choice(pred, polarity): value 1 iff pred == polarity
            pred, pol = t.args
            t, v = pred, (pol if v == 1 else 1 - pol)
            continue
        if t.op == "is_variant" and rel == "eq" and v in (0, 1):
            # is_variant(x, want) == 1  <=>  discr(x) == want   (two-variant enums)
            x, want = t.args
            t, v = mk("discr", x), (want if v == 1 else 1 - want)
            continue
        if t.op == "eq" and rel == "eq" and v in (0, 1) and t.args[1].op == "int" and t.args[1].args[1] == "bool":
            # (b == true) == 1
            t, v = t.args[0], (v if t.args[1].args[0] == 1 else 1 - v)
            continue
        if t.op == "ne" and rel == "eq" and v in (0, 1):
            t, v = mk("eq", *t.args), 1 - v
            continue
        break
    if rel == "notin" and v == (0,) and t.op != "discr" and t.op != "int":
        # switch on a boolean: the otherwise edge of `switchInt(b) [0 -> ..]` means b is true
        return norm_fact((t, "eq", 1))
    return (t, rel, v)


def closure(eng, facts):
    """close a fact set under: discr(enum-value) == k  =>  the facts attached to alternative k"""
    out = set()
    work = [norm_fact(f) for f in facts]
    while work:
        f = work.pop()
        if f in out:
            continue
        out.add(f)
        t, rel, v = f
        if rel == "notin" and t.op == "discr" and t.args[0].op == "enum":
            rest = [a for a in t.args[0].args[1] if a[0] not in v]
            if len(rest) == 1:
                work.append(norm_fact((t, "eq", rest[0][0])))
        if rel == "eq" and t.op == "discr" and t.args[0].op == "enum":
            for alt in t.args[0].args[1]:
                if alt[0] == v:
                    work.extend(norm_fact(x) for x in alt[3])
                    if alt[4]:
                        sets = [set(eng.facts_at(fk, b)) for (fk, b) in alt[4]]
                        common = set.intersection(*sets) if sets else set()
                        work.extend(norm_fact(x) for x in common)
    return out


def facts_of_variant(eng, ret, idx):
    """facts known to hold whenever `ret` (an enum value) is alternative idx"""
    a = variant(ret, idx)
    if a is None:
        return None
    fs = set(a[3])
    if a[4]:
        sets = [set(eng.facts_at(fk, b)) for (fk, b) in a[4]]
        fs |= set.intersection(*sets) if sets else set()
    return closure(eng, fs)


def show_fact(f, d=6):
    t, rel, v = f
    return "%s %s %s" % (show(t, d), rel, v)


# ---- completeness of a traversal -------------------------------------------------------------------------------------
LENGTH_PRESERVING_ADAPTORS = ("peekable", "rev", "by_ref", "fuse")


def whole_of(t, eng=None, ordered=False):
    """the collection a (collected / mapped / cloned / enumerated / peekable / reversed ...) iterator or collection term
    traverses COMPLETELY, element for element; None when an adaptor that can drop elements (take, skip, filter, zip,
    step_by, a sub-slice ...) or an unknown construct intervenes; with ordered=True the traversal must also keep the
    source's order (no rev; sorted / keyed collections are unknown constructs anyway).  A vector filled by a loop that pushes exactly one
    element per iteration is the image of what the loop iterates (needs `eng` to find the loop's iterator)."""
    seen = 0
    while is_t(t) and seen < 64:
        seen += 1
        op = t.op
        if op in ("collected", "cloned_iter", "enumerated", "refv", "deref", "conv", "copied"):
            t = t.args[0]
        elif op == "mapped":
            t = t.args[0]
        elif op == "adapted":
            if t.args[1] not in LENGTH_PRESERVING_ADAPTORS or (ordered and t.args[1] == "rev"):
                return None
            t = t.args[0]
        elif op == "iter":
            t = t.args[0]
        elif op == "chained":
            # once(first).chain(rest): `first = it.next()` followed by the remaining elements of the same source is a
            # complete, ordered traversal of that source
            a, b = t.args[0], t.args[1]
            if not (is_t(b) and b.op == "adapted" and b.args[1] == "skip" and is_t(b.args[2]) and b.args[2].op == "int" and b.args[2].args[0] == 1):
                return None
            src = whole_of(b.args[0], eng, ordered)
            one = a.args[0] if is_t(a) and a.op == "iter" else None
            if src is None or not (is_t(one) and one.op == "agg" and one.args[0] == "array" and len(one.args) == 2):
                return None
            f = one.args[1]
            n_ = 0
            while is_t(f) and f.op in ("refv", "deref", "conv", "copied", "cloned") and len(f.args) == 1 and n_ < 8:
                f = f.args[0]
                n_ += 1
            if is_t(f) and f.op == "index" and is_t(f.args[1]) and f.args[1].op == "int" and f.args[1].args[0] == 0 and f.args[0] is src:
                return src
            return None
        elif op == "phi" and eng is not None:
            pr = parts_of(t)
            first_src = None
            if len(pr) == 2 and pr[0][0] == "base" and is_t(pr[0][1]) and pr[0][1].op == "agg" and pr[0][1].args[0] == "array" and \
                    len(pr[0][1].args) == 2:
                # vec![f(first)] followed by one push per remaining element: `first = it.next(); for x in it { v.push(f(x)) }`
                firsts = find_all(pr[0][1].args[1], lambda z: z.op == "index" and is_t(z.args[1]) and z.args[1].op == "int" and z.args[1].args[0] == 0)
                if len(firsts) == 1 and not find_all(pr[0][1].args[1], lambda z: z.op == "elem"):
                    first_src = firsts[0].args[0]
                    pr = pr[1:]
            if not (len(pr) == 1 and pr[0][0] == "repeat" and len(pr[0][1]) == 1 and pr[0][1][0][0] in ("byte", "part")):
                return t if not pr else None
            if pr[0][1][0][0] == "part":
                return None            # extend_from_slice: several elements per iteration
            x = pr[0][1][0][1]
            els = find_all(x, lambda z: z.op == "elem" and len(z.args) >= 2)
            sites = {z.args[1] for z in els}
            if len(sites) > 1:
                # elements of iterations made inside helper frames (a helper's own loop over the element) do not count:
                # keep the iteration sites of the frame in which the vector is accumulated
                ps_ = phi_site(eng, t.args[0])
                own = {s_ for s_ in sites if ps_ is not None and isinstance(s_, str) and s_.rsplit("/", 1)[0] == ps_[0]}
                if len(own) == 1:
                    sites = own
            if len(sites) != 1:
                # the pushed value names the element only below a join (e.g. the accumulator of a helper's own loop):
                # take the one iteration of the frame in which the vector is accumulated
                ps = phi_site(eng, t.args[0])
                its = [e["argv"][0] for e in calls(eng, "Iterator::next")
                       if ps is not None and e["frame"] == ps[0] and e["argv"] and e["argv"][0] is not None] if not sites else []
                its = list({z.id: z for z in its}.values())
                if len(its) != 1:
                    return None
                t = its[0]
                if first_src is not None:
                    return None
                continue
            site = sites.pop()
            its = [e["argv"][0] for e in calls(eng, "Iterator::next")
                   if e["argv"] and e["argv"][0] is not None and contains(e["argv"][0], lambda z: z.op == "iter" and site in z.args[2:])
                   and e.get("result") is not None and contains(e["result"], lambda z: z.op == "elem" and site in z.args[1:])]
            if len(its) != 1:
                return None
            t = its[0]
            if first_src is not None:
                # the loop must run over exactly the rest of the collection whose first element was taken
                if not (t.op == "adapted" and t.args[1] == "skip" and is_t(t.args[2]) and t.args[2].op == "int" and t.args[2].args[0] == 1):
                    return None
                t = t.args[0]
                b2 = whole_of(t, eng, ordered)
                return b2 if b2 is first_src else None
        elif op in ("param", "field", "payload", "phi"):
            return t
        elif op == "elem" and seen > 1:
            return t          # the traversed collection is itself the element of an outer iteration (a bucket)
        else:
            return None
    return None


# ---- loop accumulators seen as folds ---------------------------------------------------------------------------------
_LOOP_ACC = {}


def is_loop_acc(t):
    """t is a join whose value on some incoming edge is computed from t itself: the accumulator of an explicit loop
    (the same thing a `fold` term stands for when the loop is written with an iterator adaptor)"""
    if not is_t(t) or t.op != "phi":
        return False
    inc = PHI.get(t.args[0]) or {}
    key = (t.id, tuple(sorted((str(k), v.id) for k, v in inc.items() if is_t(v))))
    r = _LOOP_ACC.get(key)
    if r is None:
        r = False
        for v in inc.values():
            if v is t:
                continue
            # bounded search for t inside v without expanding other joins' history twice
            seen, stack, n = set(), [v], 0
            while stack and n < 4000:
                x = stack.pop()
                n += 1
                if isinstance(x, (tuple, frozenset, list)):
                    stack.extend(x)
                    continue
                if not is_t(x) or x.id in seen:
                    continue
                seen.add(x.id)
                if x is t:
                    r = True
                    break
                if x.op == "phi":
                    stack.extend((PHI.get(x.args[0]) or {}).values())
                    continue
                stack.extend(x.args)
            if r:
                break
        _LOOP_ACC[key] = r
    return r


def fold_view(t, eng=None):
    """(init, body, iterator, acc) of a fold written either with Iterator::fold or as an explicit loop over an
    accumulator; None otherwise.  For the loop form the iterator is looked up through the element the body uses."""
    if not is_t(t):
        return None
    if t.op == "fold":
        return t.args
    if not is_loop_acc(t):
        return None
    inc = PHI.get(t.args[0]) or {}
    inits = []
    bodies = []
    for v in inc.values():
        if v is t:
            continue
        (bodies if contains(v, lambda z: z is t) else inits).append(v)
    inits = list({v.id: v for v in inits}.values())
    bodies = list({v.id: v for v in bodies}.values())
    if len(inits) != 1 or len(bodies) != 1:
        return None
    it = None
    if eng is not None:
        sites = {z.args[1] for z in find_all(bodies[0], lambda z: z.op == "elem" and len(z.args) >= 2)}
        ps = phi_site(eng, t.args[0])
        its = []
        for site in sites:
            its += [e["argv"][0] for e in calls(eng, "Iterator::next")
                    if e["argv"] and e["argv"][0] is not None and e["argv"][0].op in ("iter", "adapted", "cloned_iter", "enumerated", "zipped", "mapped", "filtered")
                    and (ps is None or e["frame"] == ps[0])
                    and any(z.op == "iter" and site in z.args[2:] for z in [e["argv"][0]] + find_all(e["argv"][0], lambda z: z.op == "iter"))
                    and e.get("result") is not None and contains(e["result"], lambda z: z.op == "elem" and site in z.args[1:])]
        its = list({x.id: x for x in its}.values())
        if len(its) == 1:
            it = its[0]
    return (inits[0], bodies[0], it, t)


def traversal_of(eng, elem, ordered=False):
    """for elem(src, site): the collection the loop / adaptor chain producing it traverses completely (see whole_of)"""
    while is_t(elem) and elem.op in ("deref", "refv") and len(elem.args) == 1:
        elem = elem.args[0]
    if not (is_t(elem) and elem.op == "elem" and len(elem.args) >= 2):
        return None
    site = elem.args[1]
    its = [e["argv"][0] for e in calls(eng, "Iterator::next")
           if e["argv"] and e["argv"][0] is not None and contains(e["argv"][0], lambda z: z.op == "iter" and site in z.args[2:])
           and e.get("result") is not None and contains(e["result"], lambda z: z.op == "elem" and site in z.args[1:])]
    its = list({x.id: x for x in its}.values())
    if len(its) != 1:
        return None
    it = its[0]
    n = 0
    while it.op == "chained" and n < 8:
        # the element belongs to one half of a.chain(b): that half is traversed completely on its own
        halves = [h for h in it.args[:2] if contains(h, lambda z: z.op == "iter" and site in z.args[2:])]
        if len(halves) != 1:
            return None
        it = halves[0]
        n += 1
    return whole_of(it, eng, ordered)


def substitute(t, old, new, _memo=None):
    """t with every occurrence of the term `old` replaced by `new` (tuples inside arguments are rebuilt too)"""
    if _memo is None:
        _memo = {}
    if is_t(t):
        if t is old:
            return new
        r = _memo.get(t.id)
        if r is None:
            if t.op == "phi":
                inc = PHI.get(t.args[0]) or {}
                if not any(_mentions(v, old) for v in inc.values()):
                    r = t
                else:
                    # a join whose incoming values mention `old`: a fresh join over the substituted incoming values
                    key2 = tuple(t.args[0]) + (("subst", old.id, new.id if is_t(new) else repr(new)),)
                    r = mk("phi", key2)
                    _memo[t.id] = r              # (self-references of a loop accumulator map to the new join)
                    PHI[key2] = {p: substitute(v, old, new, _memo) for p, v in inc.items()}
                _memo[t.id] = r
                return r
            args = [substitute(a, old, new, _memo) for a in t.args]
            r = t if all(a is b for a, b in zip(args, t.args)) else mk(t.op, *args)
            _memo[t.id] = r
        return r
    if isinstance(t, tuple):
        return tuple(substitute(a, old, new, _memo) for a in t)
    return t


def _mentions(t, x, _seen=None, _n=None):
    """does term t mention term x, looking through joins?"""
    seen = set() if _seen is None else _seen
    stack = [t]
    n = 0
    while stack and n < 20000:
        y = stack.pop()
        n += 1
        if isinstance(y, (tuple, frozenset, list)):
            stack.extend(y)
            continue
        if not is_t(y) or y.id in seen:
            continue
        seen.add(y.id)
        if y is x:
            return True
        if y.op == "phi":
            stack.extend((PHI.get(y.args[0]) or {}).values())
            continue
        stack.extend(y.args)
    return False


def unroll_literal_loops(parts):
    """a loop over an array literal `for p in [a, b, c] { out.extend(f(p)) }` appends f(a), f(b), f(c) in order: replace the
    ('repeat', body) whose body mentions one oneof(a, b, c) element by the bodies for each element"""
    out = []
    for p in parts:
        if p[0] == "repeat":
            ones = {}
            for q in p[1]:
                if len(q) > 1 and is_t(q[1]):
                    for o in find_all(q[1], lambda z: z.op == "oneof"):
                        ones[o.id] = o
            if len(ones) == 1:
                o = list(ones.values())[0]
                for a in o.args:
                    for q in p[1]:
                        out.append((q[0], substitute(q[1], o, a)) if len(q) > 1 and is_t(q[1]) else q)
                continue
        out.append(p)
    return out


def split_chain_loops(parts):
    """a loop over `a.chain(b)` runs its body for every element of a, then for every element of b: a ('repeat', body) whose
    body mentions one chain_elem(ea, eb, chained(a, b)) becomes the body over a followed by the body over b (a single
    copy when the half is a one-element sequence such as iter::once(x))"""
    out = []
    for p in parts:
        if p[0] == "repeat":
            ces = {}
            for q in p[1]:
                if len(q) > 1 and is_t(q[1]):
                    for c in find_all(q[1], lambda z: z.op == "chain_elem"):
                        ces[c.id] = c
            if len(ces) == 1:
                c = list(ces.values())[0]
                ea, eb, it = c.args
                for e, half in ((ea, it.args[0]), (eb, it.args[1])):
                    single = half.op == "iter" and half.args[0].op == "agg" and half.args[0].args[0] == "array" and len(half.args[0].args) == 2
                    optional = half.op == "enum" and half.args[0].endswith("option::Option")
                    if optional:
                        # an Option used as an iterator yields its payload once when Some, nothing when None
                        some = [a for a in half.args[1] if a[0] == 1 and a[2]]
                        if len(some) == 1:
                            body = [(q[0], substitute(q[1], c, some[0][2][0])) if len(q) > 1 and is_t(q[1]) else q for q in p[1]]
                            out.append(("opt", half, body))
                        continue
                    body = [(q[0], substitute(q[1], c, e)) if len(q) > 1 and is_t(q[1]) else q for q in p[1]]
                    if single:
                        out.extend(body)
                    else:
                        out.append(("repeat", body))
                continue
        out.append(p)
    return out
