"""C08 - wire encodings of shares and reports round-trip and reject malformed input."""
from .. import lin
from .. import query as Q
from ..terms import PHI, Int, is_t, mk
from .common import S, fidx, ok_variant

EXPLANATION = (
    "Decided statically: (R1) for each of the three codec pairs the writer's ordered chunk table (fixed-width / "
    "length-prefixed / exact remainder, and the field each chunk carries) equals the reader's: the reader's byte "
    "windows are computed symbolically (linear normal forms over the decoded length headers) and must tile the "
    "input consecutively in the writer's order - adss share: 4-byte threshold, len|S, len|C, len|D, exact 64-byte "
    "remainder J; report: len|ciphertext, len|share, len|tag; Shamir share: 24-byte x then 24-byte y chunks; (R2) "
    "layout constants 4 / 64 / 24, little-endian u32 headers on both sides, store_bytes writes the length of the "
    "same bytes it appends; (R3) accept-iff guards of the chunk readers: load_bytes yields Some exactly under "
    "len >= 4 and len >= 4 + n and returns bytes[4..4+n], load_u32 accepts iff len == 4, the Shamir decoder refuses "
    "iff shorter than one element or an element is non-canonical (validity of from_repr is required on the Ok "
    "path for x and for every y), ignoring only a trailing partial element; (R4) elements are decoded only through "
    "the canonical decoder (C07.R3).  NOT decided: equality of re-encoding with the canonical form for every "
    "string (a runtime relation), agreement with an independent parser on concrete inputs."
    "  Length headers must not pass through an integer type narrower than 4 bytes; the Shamir decoder leaves its element loop only when the input is exhausted.")
ASSUMPTIONS = ["u32::to_le_bytes / from_le_bytes are inverse; ff from_repr validity is canonical-range validity"]
TRUSTED = []


def narrowed_header(t):
    """a length passes through an integer type narrower than the 4-byte header on its way into it (`len as u16 as u32`):
    lengths of 64 KiB and more are then framed with a wrong header"""
    return Q.contains(t, lambda x: x.op == "cast" and len(x.args) >= 3 and x.args[2] in ("u8", "u16", "i8", "i16"))


def classify_writer(parts):
    """parts_of(..) -> [(kind, payload term)]  kinds: fixed / lp / raw"""
    out = []
    i = 0
    ps = [p for p in parts]
    while i < len(ps):
        p = ps[i]
        if p[0] != "part":
            out.append((p[0], p[1] if len(p) > 1 else None))
            i += 1
            continue
        t = p[1]
        if t.op == "bytes_of" and t.args[1] == 4 and t.args[2] == "le" and i + 1 < len(ps) and ps[i + 1][0] == "part" and \
                Q.contains(t.args[0], lambda x: x.op == "len" and x.args[0] is ps[i + 1][1]) and not narrowed_header(t.args[0]):
            out.append(("lp", ps[i + 1][1]))
            i += 2
            continue
        if t.op == "bytes_of":
            out.append(("fixed%d" % t.args[1], t.args[0]))
        else:
            out.append(("raw", t))
        i += 1
    return out


def reader_table(L, base_name, items, facts):
    """items: [(field, kind, window term)] in wire order; verify tiling. returns (ok, detail)"""
    cur = lin.Lin(0)
    det = []
    for fname, kind, w in items:
        win = lin.window(w) if w is not None else None
        if win is None:
            return False, "%s: not a byte window of the input (%s)" % (fname, S(w, 3))
        base, lo, hi = win
        if Q.path_of(base) != base_name:
            return False, "%s: window of %s, not of the input" % (fname, S(base, 2))
        llo, lhi = L.lin(lo), L.lin(hi)
        if kind.startswith("fixed"):
            n = int(kind[5:])
            ok = llo.add(cur, -1).is_const() and llo.add(cur, -1).c == 0 and lhi.add(llo, -1).is_const() and lhi.add(llo, -1).c == n
            if not ok:
                return False, "%s: expected the next %d bytes at the cursor; window [%s, %s)" % (fname, n, S(lo, 3), S(hi, 3))
            cur = lhi
        elif kind == "lp":
            hdr_lo = cur
            want_lo = cur.add(lin.Lin(4))
            ok_lo = llo.add(want_lo, -1).is_const() and llo.add(want_lo, -1).c == 0
            ln = lhi.add(llo, -1)
            # the length must be the u32 LE header located in the 4 bytes before the data
            ok_len = len(ln.t) == 1 and ln.c == 0
            if ok_len:
                (a, c), = ln.t.items()
                ok_len = c == 1 and a.op == "hdr" and a.args[1] == hdr_lo.key() and a.args[2] == want_lo.key() and a.args[3] == "u32" and a.args[4] == "le"
            if not (ok_lo and ok_len):
                return False, "%s: expected a chunk whose 4-byte LE header sits at the cursor; window [%s, %s)" % (fname, S(lo, 3), S(hi, 3))
            cur = lhi
        elif kind.startswith("rest"):
            n = int(kind[4:])
            ok_lo = llo.add(cur, -1).is_const() and llo.add(cur, -1).c == 0
            endlen = lhi.add(L.lin(mk("len", base)), -1)
            ok_hi = endlen.is_const() and endlen.c == 0
            if not ok_hi:
                # the same requirement stated as a separate test (`take(64)` then `is_empty()`): hi == len entailed by the Ok path
                Lf = lin.Ctx()
                for f_ in facts:
                    Lf.add_fact(f_)
                e2 = Lf.lin(hi).add(Lf.lin(mk("len", base)), -1)
                ok_hi = lin.entails(Lf, e2) and lin.entails(Lf, e2.scale(-1))
            # and the remainder's length is required to be exactly n
            want_len = lhi.add(llo, -1)
            exact = any(t.op == "eq" and rel == "eq" and v == 1 and t.args[1].op == "int" and t.args[1].args[0] == n and
                        L.lin(t.args[0]).key() == want_len.key() for t, rel, v in facts)
            if not (ok_lo and ok_hi and exact):
                return False, "%s: expected exactly the remaining %d bytes (start at cursor: %s, to the end: %s, length required: %s)" % (fname, n, ok_lo, ok_hi, exact)
            cur = lhi
        det.append("%s:%s" % (fname, kind))
    return True, " . ".join(det)


def writer_entails_reader(ctx, rule, key, L, base_name, items, facts, mins, at, exact_end=True):
    """every linear acceptance condition of the reader (facts on its Some/Ok path that mention only the input length and
    the top-level length headers) must be entailed by the writer's model: header k = length of chunk k >= mins[k],
    the encoding ends after the last chunk.  A reader guard that excludes some honest encoding is reported."""
    base_len = None
    hdrs = {}
    cur = None
    rest_eqs = []
    for fname, kind, w in items:
        win = lin.window(w) if w is not None else None
        if win is None:
            return
        base, lo, hi = win
        if base_len is None:
            base_len = L.lin(mk("len", base))
        llo, lhi = L.lin(lo), L.lin(hi)
        if kind == "lp":
            ln = lhi.add(llo, -1)
            if len(ln.t) == 1 and ln.c == 0:
                hdrs[list(ln.t)[0]] = fname
        if kind.startswith("rest"):
            d = lhi.add(llo, -1).add(lin.Lin(int(kind[4:])), -1)
            rest_eqs += [d, d.scale(-1)]
        cur = lhi
    allowed = set(hdrs) | set(base_len.t)
    cons = list(L.constraints()) + rest_eqs
    for a, fname in hdrs.items():
        cons.append(lin.Lin(mins.get(fname, 0)).add(lin.atom(a), -1))      # min - hdr <= 0
    if exact_end and cur is not None:
        d = base_len.add(cur, -1)
        cons += [d, d.scale(-1)]
    neg = {"lt": "ge", "le": "gt", "gt": "le", "ge": "lt", "eq": "ne", "ne": "eq"}
    checked, bad = 0, []
    for t, rel, v in sorted(facts, key=lambda f: str(f[0].id)):
        if rel == "eq" and v == 1 and t.op == "range_ok" and len(t.args) == 3:
            # lo <= hi <= n must hold for every honest encoding: neither lo > hi nor hi > n may be feasible
            lo_, hi_, n_ = (L.lin(x) for x in t.args)
            if not (set(lo_.t) | set(hi_.t) | set(n_.t)) or not (set(lo_.t) | set(hi_.t) | set(n_.t)) <= allowed:
                continue
            checked += 1
            if not (lin.infeasible(cons + [hi_.add(lo_, -1).add(lin.Lin(1))]) and lin.infeasible(cons + [n_.add(hi_, -1).add(lin.Lin(1))])):
                bad.append("%s is True" % S(t, 4))
            continue
        if rel != "eq" or v not in (0, 1) or t.op not in ("lt", "le", "gt", "ge", "eq", "ne") or len(t.args) != 2:
            continue
        d = L.lin(t.args[0]).add(L.lin(t.args[1]), -1)
        if not d.t or not set(d.t) <= allowed:
            continue
        o = t.op if v == 1 else neg[t.op]
        no = neg[o]            # the relation that must be impossible for honest encodings
        alts = {"lt": [[d.add(lin.Lin(1))]], "le": [[d]], "gt": [[d.scale(-1).add(lin.Lin(1))]], "ge": [[d.scale(-1)]],
                "eq": [[d, d.scale(-1)]], "ne": [[d.add(lin.Lin(1))], [d.scale(-1).add(lin.Lin(1))]]}[no]
        checked += 1
        if not all(lin.infeasible(cons + alt) for alt in alts):
            bad.append("%s is %s" % (S(t, 4), bool(v)))
    ctx.add(rule, key, not bad and checked > 0,
            "every length condition the reader requires must hold for every encoding the writer emits (chunk minimum lengths %s); "
            "%d condition(s) checked, not entailed: %s" % (mins, checked, bad[:3]), at,
            sample={"conditions_checked": checked, "writer_min_lengths": mins})


def min_len(parts):
    """least number of bytes a writer's part list can produce"""
    n = 0
    for p in parts:
        if p[0] == "part":
            t = p[1]
            if is_t(t) and t.op == "bytes_of":
                n += int(t.args[1])
        elif p[0] == "alt":
            n += min(min_len(a) for a in p[1])
    return n


def honest_chunk_minimums(ctx):
    """minimum lengths of the chunks an honest client emits, read off the writers"""
    from .c15 import const_value
    fe = const_value(ctx, "star_sharks::share_ff::FIELD_ELEMENT_LEN")
    mac = const_value(ctx, "adss::MAC_LENGTH")
    acc = const_value(ctx, "adss::ACCESS_STRUCTURE_LENGTH")
    eng, ret, st, fr = ctx.root("sta_rs::Message::generate")
    cn = Q.calls(eng, "sta_rs::Ciphertext::new")
    ct = min(min_len(Q.parts_of(e["argv"][1])) for e in cn) if cn else 0
    share = (acc or 0) + (4 + (fe or 0)) + 4 + 4 + (mac or 0)
    return {"ciphertext": ct, "share": share, "tag": 0, "S": fe or 0, "C": 0, "D": 0}


def message_reader_accepts_honest(ctx, rule):
    M = "sta_rs::Message"
    ic, ish, itg = (fidx(ctx, M, n) for n in ("ciphertext", "share", "tag"))
    eng, ret, st, fr = ctx.root("sta_rs::Message::from_bytes")
    at = ctx.fn("sta_rs::Message::from_bytes").loc
    some = Q.variant(ret, 1)
    key = "sta_rs::Message::from_bytes#accepts-every-honest-encoding"
    if some is None or some[2][0].op != "agg":
        ctx.add(rule, key, False, "reader has no Some(Message) aggregate", at)
        return
    m = some[2][0]
    fs = Q.facts_of_variant(eng, ret, 1) or set()
    L = lin.Ctx()
    ct = m.args[1 + ic]
    ctw = ct.args[1] if ct.op == "agg" else ct
    sb = [e for e in Q.calls(eng, "sta_rs::Share::from_bytes") if e["home"] == fr.key]
    items = [("ciphertext", "lp", ctw), ("share", "lp", sb[0]["argv"][0] if sb else None), ("tag", "lp", m.args[1 + itg])]
    ok, det = reader_table(L, "bytes", items, fs)
    if not ok:
        ctx.add(rule, key, False, "reader windows do not tile the input: %s" % det, at)
        return
    writer_entails_reader(ctx, rule, key, L, "bytes", items, fs, honest_chunk_minimums(ctx), at)


def shamir_reader_rules(ctx, R1, R3):
    """the Shamir share decoder takes x and every y from complete, consecutive 24-byte windows through the canonical
    decoder and refuses non-canonical elements (shared: C08.R1/R3, C05.R6)"""
    SS = "star_sharks::share_ff::Share"
    ix, iy = fidx(ctx, SS, "x"), fidx(ctx, SS, "y")
    rroot = "star_sharks::<share_ff::Share as std::convert::TryFrom<&[u8]>>::try_from"
    eng, ret, st, fr = ctx.root(rroot)
    at = ctx.fn(rroot).loc
    okv = ok_variant(ret, 0)
    fs = Q.facts_of_variant(eng, ret, 0) or set()
    L = lin.Ctx()
    okr = False
    det = ""
    if okv is not None and okv[2][0].op == "agg":
        shv = okv[2][0]
        x = shv.args[1 + ix]
        y = shv.args[1 + iy]
        xw = Q.find_all(x, lambda t: t.op == "as_array")
        yparts = Q.parts_of(y)
        yel = None
        collected = False
        if len(yparts) == 1 and yparts[0][0] == "repeat" and len(yparts[0][1]) == 1:
            yel = yparts[0][1][0][1]                  # one push per loop iteration
        elif y.op == "collected" and y.args[0].op == "mapped":
            yel = y.args[0].args[1]                   # iterator.map(decode).collect::<Result<Vec<_>, _>>()?
            collected = True
        yw = Q.find_all(yel, lambda t: t.op == "as_array") if yel is not None else []
        if xw and yw and lin.window(xw[0]) is None:
            det = "x is not decoded from a byte window of the input: %s" % S(xw[0], 4)
        elif xw and yw:
            bx, lox, hix = lin.window(xw[0])
            okx = Q.path_of(bx) == "s" and L.lin(lox).key() == lin.Lin(0).key() and L.lin(hix).key() == lin.Lin(24).key()
            oky = False
            wy = lin.window(yw[0])
            if wy is not None:
                # idiom (a): indexed windows y_bytes[i*24 .. (i+1)*24], i in 0 .. (len-24)/24
                by, loy, hiy = wy
                i = Q.find_all(yw[0], lambda t: t.op == "range_elem")
                if i and Q.path_of(by) == "s":
                    e = lin.atom(i[0])
                    oky = L.lin(loy).add(e.scale(24).add(lin.Lin(24)), -1).key() == lin.Lin(0).key() and \
                        L.lin(hiy).add(e.scale(24).add(lin.Lin(48)), -1).key() == lin.Lin(0).key() and \
                        i[0].args[0].op == "int" and i[0].args[0].args[0] == 0
                    cnt = i[0].args[1]
                    okcnt = cnt.op == "div" and cnt.args[1].op == "int" and cnt.args[1].args[0] == 24 and \
                        L.lin(cnt.args[0]).add(L.lin(mk("len", by)), -1).key() == lin.Lin(-24).key()
                    oky = oky and okcnt
                det = "x window [%s,%s) y_i window [%s,%s)" % (S(lox, 2), S(hix, 2), S(loy, 4), S(hiy, 4))
                if not i and not oky:
                    # idiom (d): a cursor - y_i is the first 24 bytes of a loop-carried remainder that starts as s[24..],
                    # advances by 24 per element, and the Ok path leaves the loop only with fewer than 24 bytes left
                    def bare(t):
                        while is_t(t) and t.op in ("deref", "refv", "copied", "conv") and len(t.args) == 1:
                            t = t.args[0]
                        return t
                    cur = bare(by)
                    j = Q.field_of_join(cur) if cur.op == "field" else cur
                    inc = list((PHI.get(j.args[0]) or {}).values()) if is_t(j) and j.op == "phi" else []
                    inits = [bare(v) for v in inc if not Q.contains(v, lambda z: z is cur)]
                    steps = [bare(v) for v in inc if Q.contains(v, lambda z: z is cur)]

                    def is_rest(v, base, name=None):
                        return v.op == "slice" and (bare(v.args[0]) is base if name is None else Q.path_of(v.args[0]) == name) and \
                            L.lin(v.args[1]).key() == lin.Lin(24).key() and v.args[2].op == "len" and bare(v.args[2].args[0]) is bare(v.args[0])
                    ended = any(t.op == "lt" and rel == "eq" and v == 1 and t.args[0].op == "len" and bare(t.args[0].args[0]) is cur and
                                t.args[1].op == "int" and t.args[1].args[0] == 24 for t, rel, v in Q.closure(eng, fs))
                    oky = len(inits) == 1 and len(steps) == 1 and is_rest(inits[0], None, "s") and is_rest(steps[0], cur) and \
                        L.lin(loy).key() == lin.Lin(0).key() and L.lin(hiy).key() == lin.Lin(24).key() and ended
                    det = "x window [%s,%s) y_i = first 24 bytes of a cursor over s[24..] advancing by 24, exhausted on Ok: %s" % (S(lox, 2), S(hix, 2), oky)
            else:
                # idiom (b): consecutive chunks_exact(24) of s[24..]
                ch = Q.find_all(yw[0], lambda t: t.op == "chunks")
                if ch and ch[0].args[2] == "chunks_exact" and ch[0].args[1].op == "int" and ch[0].args[1].args[0] == 24:
                    wb = lin.window(ch[0].args[0])
                    oky = wb is not None and Q.path_of(wb[0]) == "s" and L.lin(wb[1]).key() == lin.Lin(24).key() and \
                        L.lin(wb[2]).add(L.lin(mk("len", wb[0])), -1).key() == lin.Lin(0).key()
                if ch and not oky and ch[0].args[2] == "chunks_exact" and ch[0].args[1].op == "int" and ch[0].args[1].args[0] == 24 and \
                        Q.path_of(ch[0].args[0]) == "s" and collected:
                    # idiom (c): chunks_exact(24) of all of s, the first chunk taken for x and every remaining one mapped
                    it_ = y.args[0]
                    while it_.op == "mapped":
                        it_ = it_.args[0]
                    oky = it_.op == "adapted" and it_.args[1] == "skip" and it_.args[2].op == "int" and it_.args[2].args[0] == 1 and \
                        it_.args[0].op == "iter" and it_.args[0].args[0] is ch[0] and \
                        yw[0].args[0].op == "elem" and yw[0].args[0].args[0] is ch[0]
                det = "x window [%s,%s) y = chunks_exact(24) of s[24..]: %s" % (S(lox, 2), S(hix, 2), oky)
            okr = okx and oky
        # validity required for x and every y
        valid = [t for t, rel, v in fs if t.op == "ct_valid" and rel == "eq" and v == 1]
        needx = any(t.args[0].op == "fp_from_repr" and xw and Q.contains(t.args[0], lambda z: z is xw[0]) for t in valid)
        ely = Q.find_all(yel, lambda t: t.op == "fp_from_repr") if yel is not None else []
        ctx.add(R3, rroot + "#x-must-be-canonical", needx, "Ok must require the x element to be in range (from_repr valid)", at)
        # the y element pushed is ct_value of a from_repr whose validity dominated the push
        pushes = [e for e in Q.calls(eng, "::push") if e["home"] == fr.key]
        oky_valid = False
        if collected and yel is not None:
            # the collection exists only if every mapped element was Ok: the element's validity is a fact of the Ok path
            fr_ = Q.find_all(yel, lambda t: t.op == "fp_from_repr")
            oky_valid = len(fr_) == 1 and any(t.op == "ct_valid" and rel == "eq" and v == 1 and Q.contains(t, lambda z: z is fr_[0]) for t, rel, v in fs)
            pushes = [None]
        for e in ([] if collected else pushes):
            f_p = Q.closure(eng, eng.facts_at(e["frame"], e["block"]))
            el = e["argv"][1]
            fr_ = Q.find_all(el, lambda t: t.op == "fp_from_repr")
            if fr_ and any(t.op == "ct_valid" and rel == "eq" and v == 1 and Q.contains(t, lambda z: z is fr_[0]) for t, rel, v in f_p):
                oky_valid = True
        if not collected:
            # ... and the Ok path leaves the y loop only because the input is exhausted (a `break` / `continue` on an
            # invalid element accepts the string with that element dropped)
            def in_cycle(e):
                b_ = e.get("home_block", e["block"])
                return isinstance(b_, int) and any(b_ in fr.cfg.reachable_from(s_) for s_ in fr.cfg.succ[b_])
            loops = [e for e in Q.calls(eng, "Iterator::next") if e["home"] == fr.key and e.get("result") is not None and
                     e["result"].op == "enum" and in_cycle(e)]
            cfs = Q.closure(eng, fs)
            for e in loops:
                none_ix = [a[0] for a in e["result"].args[1] if a[1] == "None"]
                if not any(t.op == "discr" and t.args[0] is e["result"] and rel == "eq" and none_ix and v == none_ix[0] for t, rel, v in cfs):
                    oky_valid = False
        ctx.add(R3, rroot + "#every-y-must-be-canonical", oky_valid and len(pushes) == 1,
                "every y element stored must have passed the from_repr validity test (an out-of-range element must reject the share)", at)
    ctx.add(R1, rroot + "#chunk-table", okr, "reader must take x from bytes [0,24) and y_i from [24+24i, 48+24i), i < (len-24)/24: %s" % det, at, sample=det)
    short = any(t.op == "lt" and rel == "eq" and v == 0 and t.args[0].op == "len" and t.args[1].op == "int" and t.args[1].args[0] == 24 for t, rel, v in fs)
    if not short:
        # the same requirement through any other test (get(..24), split_at_checked, ..): Ok entails len(s) >= 24
        Ls = lin.Ctx()
        for f_ in fs:
            Ls.add_fact(f_)
        short = lin.entails(Ls, lin.Lin(24).add(Ls.lin(mk("len", mk("param", "s"))), -1))
    ctx.add(R3, rroot + "#refuses-short-input", short, "Ok must require len >= 24", at)



def run(ctx):
    # =================== adss::Share ===========================================================================
    SH = "adss::Share"
    iA, iS, iC, iD, iJ = (fidx(ctx, SH, n) for n in ("A", "S", "C", "D", "J"))
    eng, ret, st, fr = ctx.root("adss::Share::to_bytes")
    at = ctx.fn("adss::Share::to_bytes").loc
    wt = classify_writer(Q.unroll_literal_loops(Q.split_chain_loops(Q.parts_of(ret)))) if ret is not None else []
    def src(t):
        return sorted(Q.params(Q.leaves(t))) if is_t(t) else None
    wtab = [(k, src(t)) for k, t in wt]
    want_w = [("fixed4", ["self.%d.0" % iA]), ("lp", None), ("lp", ["self.%d" % iC]), ("lp", ["self.%d" % iD]), ("raw", ["self.%d" % iJ])]
    okw = len(wtab) == 5 and all(a[0] == b[0] and (b[1] is None or a[1] == b[1]) for a, b in zip(wtab, want_w)) and \
        wtab[1][1] and all(p.startswith("self.%d" % iS) for p in wtab[1][1])
    ctx.add("C08.R1", "adss::Share::to_bytes#chunk-table", okw,
            "writer must emit threshold(4) . len|S . len|C . len|D . J ; found %s" % wtab, at, sample=wtab)
    eng, ret, st, fr = ctx.root("adss::Share::from_bytes")
    at = ctx.fn("adss::Share::from_bytes").loc
    some = Q.variant(ret, 1)
    if some is None or some[2][0].op != "agg":
        ctx.add("C08.R1", "adss::Share::from_bytes#some", False, "reader has no Some(Share) aggregate", at)
    else:
        sh = some[2][0]
        fs = Q.facts_of_variant(eng, ret, 1) or set()
        L = lin.Ctx()
        A = sh.args[1 + iA]
        a_w = Q.find_all(A, lambda t: t.op == "int_of")
        # S: the window handed to the Shamir decoder
        tf = [e for e in Q.calls(eng, "TryFrom<&[u8]>>::try_from") if e["home"] == fr.key]
        s_w = tf[0]["argv"][0] if tf else None
        items = [("A", "fixed4", a_w[0].args[0] if a_w else None), ("S", "lp", s_w), ("C", "lp", sh.args[1 + iC]),
                 ("D", "lp", sh.args[1 + iD]), ("J", "rest64", sh.args[1 + iJ])]
        ok, det = reader_table(L, "bytes", items, fs)
        ctx.add("C08.R1", "adss::Share::from_bytes#chunk-table", ok,
                "reader windows must tile the input as threshold(4) . len|S . len|C . len|D . exact 64-byte remainder: %s" % det, at, sample=det)
        if ok:
            writer_entails_reader(ctx, "C08.R3", "adss::Share::from_bytes#accepts-every-honest-encoding", L, "bytes", items, fs,
                                  honest_chunk_minimums(ctx), at)
        okA = bool(a_w) and a_w[0].args[1] == "u32" and a_w[0].args[2] == "le"
        ctx.add("C08.R2", "adss::Share::from_bytes#threshold-le-u32", okA, "the threshold must be decoded as a little-endian u32", at)
        # S decoded by the Shamir decoder from its chunk; C/D copied verbatim
        okS = bool(tf) and sh.args[1 + iS].op == "agg"
        ctx.add("C08.R1", "adss::Share::from_bytes#S-through-shamir-decoder", okS, "S must be decoded by star_sharks::Share::try_from from its chunk", at)

    # =================== sta_rs::Message ============================================================================
    M = "sta_rs::Message"
    ic, ish, itg = (fidx(ctx, M, n) for n in ("ciphertext", "share", "tag"))
    eng, ret, st, fr = ctx.root("sta_rs::Message::to_bytes")
    at = ctx.fn("sta_rs::Message::to_bytes").loc
    wt = classify_writer(Q.unroll_literal_loops(Q.split_chain_loops(Q.parts_of(ret)))) if ret is not None else []
    wtab = [(k, src(t)) for k, t in wt]
    okw = [k for k, _ in wtab] == ["lp", "lp", "lp"] and all(p.startswith("self.%d" % ic) for p in wtab[0][1]) and \
        all(p.startswith("self.%d" % ish) for p in wtab[1][1]) and wtab[2][1] == ["self.%d" % itg]
    ctx.add("C08.R1", "sta_rs::Message::to_bytes#chunk-table", okw, "writer must emit len|ciphertext . len|share . len|tag; found %s" % wtab, at, sample=wtab)
    eng, ret, st, fr = ctx.root("sta_rs::Message::from_bytes")
    at = ctx.fn("sta_rs::Message::from_bytes").loc
    some = Q.variant(ret, 1)
    if some is None or some[2][0].op != "agg":
        ctx.add("C08.R1", "sta_rs::Message::from_bytes#some", False, "reader has no Some(Message) aggregate", at)
    else:
        m = some[2][0]
        fs = Q.facts_of_variant(eng, ret, 1) or set()
        L = lin.Ctx()
        ct = m.args[1 + ic]
        ctw = ct.args[1] if ct.op == "agg" else ct
        sb = [e for e in Q.calls(eng, "sta_rs::Share::from_bytes") if e["home"] == fr.key]
        items = [("ciphertext", "lp", ctw), ("share", "lp", sb[0]["argv"][0] if sb else None), ("tag", "lp", m.args[1 + itg])]
        ok, det = reader_table(L, "bytes", items, fs)
        ctx.add("C08.R1", "sta_rs::Message::from_bytes#chunk-table", ok,
                "reader windows must tile the input as len|ciphertext . len|share . len|tag: %s" % det, at, sample=det)
    message_reader_accepts_honest(ctx, "C08.R3")

    # =================== star_sharks::Share ===========================================================================
    SS = "star_sharks::share_ff::Share"
    ix, iy = fidx(ctx, SS, "x"), fidx(ctx, SS, "y")
    wroot = "star_sharks::share_ff::<impl std::convert::From<&share_ff::Share> for std::vec::Vec<u8>>::from"
    eng, ret, st, fr = ctx.root(wroot)
    at = ctx.fn(wroot).loc
    parts = Q.split_chain_loops(Q.parts_of(ret)) if ret is not None else []
    from .common import complete_repr
    okw = len(parts) == 2 and parts[0][0] == "part" and parts[1][0] in ("part", "repeat")
    if okw:
        xs = parts[0][1]
        xe = complete_repr(xs)
        okx = xe is not None and Q.path_of(xe) == "s.%d" % ix
        if parts[1][0] == "part":
            # idiom (a): the y encodings concatenated by a fold over the y vector
            ys = parts[1][1]
            oky = ys.op == "fold" and Q.contains(ys, lambda t: t.op == "fp_to_repr") and \
                all(p.startswith("s.%d" % iy) for p in Q.params(Q.leaves(ys)))
        else:
            # idiom (b): one complete element encoding appended per iteration of a loop over the y vector
            body = parts[1][1]
            ye = complete_repr(body[0][1]) if len(body) == 1 and body[0][0] == "part" else None
            src = Q.traversal_of(eng, ye, ordered=True) if ye is not None else None
            oky = src is not None and Q.path_of(src) == "s.%d" % iy
        okw = okx and oky
    ctx.add("C08.R1", wroot.split("::<impl")[0] + "::Share->Vec<u8>#chunk-table", okw,
            "writer must emit repr(x) followed by the concatenation of repr(y_i) in order; found %s" % [S(p[1], 3) for p in parts], at)
    shamir_reader_rules(ctx, "C08.R1", "C08.R3")

    # =================== R2 constants and helpers ===================================================================
    from .c15 import const_value
    for nm, want in (("adss::ACCESS_STRUCTURE_LENGTH", 4), ("adss::MAC_LENGTH", 64), ("star_sharks::share_ff::FIELD_ELEMENT_LEN", 24)):
        cv = const_value(ctx, nm)
        ctx.add("C08.R2", nm + "#value", cv == want, "%s must be %d; found %s" % (nm, want, cv), ctx.fn(nm).loc, sample=cv)
    eng, ret, st, fr = ctx.root("adss::store_u32")
    out = st.get(("param", "out"))
    p = Q.parts_of(out) if out is not None else []
    ctx.add("C08.R2", "adss::store_u32#le4", len(p) == 2 and p[1][0] == "part" and p[1][1].op == "bytes_of" and p[1][1].args[1:] == (4, "le"),
            "store_u32 must append the 4-byte little-endian encoding; found %s" % [S(x[1], 3) for x in p[1:]], ctx.fn("adss::store_u32").loc)
    eng, ret, st, fr = ctx.root("adss::store_bytes")
    out = st.get(("param", "out"))
    wt = classify_writer(Q.parts_of(out)[1:]) if out is not None else []
    ctx.add("C08.R2", "adss::store_bytes#len-prefix-of-same-bytes", [k for k, _ in wt] == ["lp"] and Q.path_of(wt[0][1]) == "s",
            "store_bytes must append u32-LE(len(s)) followed by s; found %s" % [(k, S(t, 3)) for k, t in wt], ctx.fn("adss::store_bytes").loc)
    eng, ret, st, fr = ctx.root("adss::load_u32")
    some = Q.variant(ret, 1)
    fs = Q.facts_of_variant(eng, ret, 1) or set()
    okl = some is not None and some[2][0].op == "int_of" and some[2][0].args[1:] == ("u32", "le")
    ctx.add("C08.R2", "adss::load_u32#le4", okl, "load_u32 must decode a little-endian u32; found %s" % S(some[2][0] if some else None, 3), ctx.fn("adss::load_u32").loc)
    ok4 = any(t.op == "eq" and rel == "eq" and v == 1 and t.args[0].op == "len" and t.args[1].op == "int" and t.args[1].args[0] == 4 for t, rel, v in fs)
    ctx.add("C08.R3", "adss::load_u32#accepts-iff-len-4", ok4, "load_u32 must accept iff len == 4", ctx.fn("adss::load_u32").loc)

    # =================== R3 load_bytes ================================================================================
    eng, ret, st, fr = ctx.root("adss::load_bytes")
    at = ctx.fn("adss::load_bytes").loc
    some = Q.variant(ret, 1)
    fs = Q.facts_of_variant(eng, ret, 1) or set()
    L = lin.Ctx()
    for f in fs:
        L.add_fact(f)
    okres = False
    det = "no Some"
    if some is not None:
        w = lin.window(some[2][0])
        if w is not None and Q.path_of(w[0]) == "bytes":
            lo, hi = L.lin(w[1]), L.lin(w[2])
            ln = hi.add(lo, -1)
            hdr_ok = len(ln.t) == 1 and ln.c == 0 and list(ln.t.items())[0][1] == 1 and list(ln.t)[0].op == "hdr" and \
                list(ln.t)[0].args[1] == lin.Lin(0).key() and list(ln.t)[0].args[2] == lin.Lin(4).key()
            okres = lo.key() == lin.Lin(4).key() and hdr_ok
            det = "returns bytes[%s..%s]" % (S(w[1], 3), S(w[2], 3))
            # guards: len >= 4 and hi <= len are entailed on the Some path
            g1 = lin.entails(L, lin.Lin(4).add(L.lin(mk("len", w[0])), -1))
            g2 = lin.entails(L, hi.add(L.lin(mk("len", w[0])), -1))
            ctx.add("C08.R3", "adss::load_bytes#some-implies-in-bounds", g1 and g2,
                    "Some must imply len >= 4 and 4 + n <= len (entailed: %s, %s)" % (g1, g2), at)
    ctx.add("C08.R3", "adss::load_bytes#returns-prefixed-chunk", okres,
            "load_bytes must return exactly bytes[4 .. 4 + n] with n the LE u32 at bytes[0..4]: %s" % det, at, sample=det)
    # None only under a negated guard: each None origin has a fact contradicting the Some conditions
    none = Q.variant(ret, 0)
    okn = True
    cnt = 0
    for (fk, b) in (none[4] if none else ()):
        fn_ = Q.closure(eng, eng.facts_at(fk, b))
        L2 = lin.Ctx()
        for f in fn_:
            L2.add_fact(f)
        cnt += 1
        # under this None origin the chunk is NOT completely available: len < 4 or len < 4+n or overflow
        w0 = mk("len", mk("param", "bytes"))
        short = lin.entails(L2, L2.lin(w0).add(lin.Lin(3), -1))
        miss = any(t.op in ("no_ovf", "range_ok") and v == 0 for t, rel, v in fn_) or any(t.op == "lt" and rel == "eq" and v == 1 for t, rel, v in fn_) or \
            any(t.op == "discr" and v == 1 for t, rel, v in fn_)
        if not (short or miss):
            okn = False
    ctx.add("C08.R3", "adss::load_bytes#none-only-when-incomplete", okn and cnt >= 2,
            "every None of load_bytes must be under a failed completeness test (%d None sites)" % cnt, at)
    ctx.floor("C08.R1", 7)
    ctx.floor("C08.R2", 7)
    ctx.floor("C08.R3", 9)
