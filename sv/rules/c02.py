"""C02 - sub-threshold confidentiality."""
from .. import query as Q
from ..terms import PHI, Term, is_t, subterms
from .common import S, fidx, is_zero_bytes, ok_variant
from . import c01, c05

EXPLANATION = (
    "Decided statically: (R1) no client secret (measurement, client randomness, the derived key seed / coins, the "
    "payload key, the ADSS key K, the dealt secret, the associated data) is contained in the clear in any wire "
    "field of a report - each reaches the wire only below a one-way operation (Strobe output, Shamir evaluation "
    "of degree >= 1); (R2) key seed, coins and tag are three different elements of the derived vector and element "
    "k absorbs the counter k; (R3) the sharing polynomial consists of one fresh draw from the supplied generator "
    "per non-constant coefficient, made inside the counted loop 1..k over the full-width threshold, with the "
    "secret pushed last; (R4) recovery refuses iff fewer than `threshold` distinct points (C01.R4 rules re-run "
    "here); (R5) the MAC gate and threshold binding of C05; (R6) the dealt secret is K||0^16 with K a PRF output of "
    "the transcript that absorbed (A, M, R), and the coefficient generator is the continuation of that same "
    "transcript; (R7) a randomly placed share is evaluated only at a point proven non-zero (x = 0 would be the key itself).  NOT decided: information-theoretic secrecy of Shamir sharing, non-zero / pairwise distinct "
    "coefficients (probabilistic), MAC unforgeability.")
ASSUMPTIONS = ["Strobe outputs and Shamir evaluations of degree >= 1 are treated as one-way for the clear-text rule"]
TRUSTED = []

ONEWAY_WIRE = {"owf", "fold"}


def raw_nodes(t, oneway):
    """ids of term nodes reachable from t without passing below a one-way op (the one-way node itself included)"""
    seen = set()
    stack = [t]
    while stack:
        x = stack.pop()
        if isinstance(x, (tuple, frozenset, list)):
            stack.extend(x)
            continue
        if not isinstance(x, Term) or x.id in seen:
            continue
        seen.add(x.id)
        if x.op in oneway or ("fold" in oneway and x.op == "phi" and Q.is_loop_acc(x)):
            continue
        if x.op == "phi":
            inc = PHI.get(x.args[0])
            if inc:
                stack.extend(inc.values())
            continue
        stack.extend(Q.raw_children(x))
    return seen


def wire_fields(ctx, msg):
    M = "sta_rs::Message"
    ct = msg.args[1 + fidx(ctx, M, "ciphertext")]
    sh = msg.args[1 + fidx(ctx, M, "share")]
    tag = msg.args[1 + fidx(ctx, M, "tag")]
    out = {"ciphertext": ct, "tag": tag}
    inner = sh.args[1] if sh.op == "agg" and len(sh.args) == 2 else sh
    SH = "adss::Share"
    if inner.op == "agg":
        for n in ("A", "S", "C", "D", "J"):
            out["share." + n] = inner.args[1 + fidx(ctx, SH, n)]
    else:
        out["share"] = inner
    return out


def secrets_of(ctx, eng):
    """named secret terms of one Message::generate analysis"""
    sec = {}
    cn = Q.calls(eng, "adss::Commune::new")
    if cn:
        sec["key seed r0 (ADSS message)"] = cn[0]["argv"][1]
        sec["coins r1"] = cn[0]["argv"][2]
    ci = Q.calls(eng, "sta_rs::Ciphertext::new")
    if ci:
        sec["payload key"] = ci[0]["argv"][0]
        sec["payload plaintext"] = ci[0]["argv"][1]
    dr = Q.calls(eng, "star_sharks::Sharks::dealer_rng")
    if dr:
        sec["dealt secret K||0"] = dr[0]["argv"][1]
        k = dr[0]["argv"][1]
        if k.op == "append":
            sec["ADSS key K"] = k.args[0]
    return sec


def run(ctx):
    root = "sta_rs::Message::generate"
    eng, ret, st, fr = ctx.root(root)
    at = ctx.fn(root).loc
    okv = ok_variant(ret, 0)
    if okv is None or okv[2][0].op != "agg":
        ctx.add("C02.R1", root + "#ok", False, "generate has no Ok(Message) aggregate", at)
        return
    msg = okv[2][0]
    wf = wire_fields(ctx, msg)
    sec = secrets_of(ctx, eng)
    ix = fidx(ctx, "sta_rs::MessageGenerator", "x")
    secret_params = {"mg.%d.0" % ix: "measurement", "rnd": "client randomness", "aux.v1.0.0": "associated data"}
    for name, v in sorted(wf.items()):
        nodes = raw_nodes(v, ONEWAY_WIRE)
        leaked = [sn for sn, t in sec.items() if t.id in nodes]
        rp = Q.params(Q.atoms(v, stop_ops=ONEWAY_WIRE))
        leaked += [secret_params[p] for p in rp if p in secret_params]
        ctx.add("C02.R1", root + "#wire:" + name, not leaked,
                "wire field `%s` contains %s in the clear (not below a one-way operation)" % (name, leaked), at,
                sample={"field": name, "clear_inputs": sorted(rp)})
    ctx.floor("C02.R1", 7)

    # ---- R2 role separation -------------------------------------------------------------------------------
    cn = Q.calls(eng, "adss::Commune::new")
    dk = Q.calls(eng, "sta_rs::derive_ske_key")
    tag = wf["tag"]
    roles = {}
    if cn:
        roles["key seed"] = cn[0]["argv"][1]
        roles["coins"] = cn[0]["argv"][2]
    roles["tag"] = tag
    idx = {}
    vec = set()
    from .common import role_id
    for nm, t in roles.items():
        if t.op == "index" and t.args[1].op == "int":
            idx[nm] = t.args[1].args[0]
            vec.add(t.args[0])
    ok = len(idx) == 3 and len(set(idx.values())) == 3 and len(vec) == 1
    rids = {nm: role_id(t) for nm, t in roles.items()}
    const_family = all(r is not None and r[0] == "const" for r in rids.values()) and len(rids) == 3
    if not ok and const_family:
        # three separate PRF outputs told apart by the constant each absorbs (derive(0), derive(1), derive(2))
        ok = len(set(rids.values())) == 3
        idx = {nm: r[1] for nm, r in rids.items()}
    ctx.add("C02.R2", root + "#distinct-roles", ok,
            "key seed, coins and tag must be three different elements of the one derived vector; found %s"
            % {k: S(v, 3) for k, v in roles.items()}, at, sample=idx)
    # element k absorbs the loop counter k
    okc = False
    det = "derived vector is not built by a counted loop"
    if len(vec) == 1:
        v = next(iter(vec))
        parts = Q.parts_of(v)
        rep = [p for p in parts if p[0] == "repeat"]
        elems = []
        if rep:
            elems = [p[1] for p in rep[0][1] if p[0] == "byte"]
        elif len(parts) == 1 and parts[0][0] == "base" and parts[0][1].op == "collected" and parts[0][1].args[0].op == "mapped":
            elems = [parts[0][1].args[0].args[1]]      # (lo..hi).map(|i| ..).collect()
        if len(elems) == 1 and elems[0].op == "owf":
            tr = Q.flat_ops(Q.trace_of(elems[0].args[1]))
            absorbs = [d for k, d, _ in tr if k in ("ad", "key", "meta_ad") and
                       Q.contains(d, lambda t: t.op == "range_elem")]
            keyed = [d for k, d, _ in tr if k == "key" and Q.params(Q.leaves(d)) == {"rnd"}]
            okc = bool(absorbs) and bool(keyed)
            det = Q.show_trace(Q.trace_of(elems[0].args[1]), 4)
    if not okc and const_family:
        okc = True
        dets = []
        for nm, t in roles.items():
            tt = t
            while tt.op in ("refv", "conv", "copied", "deref"):
                tt = tt.args[0]
            tr = Q.flat_ops(Q.trace_of(tt.args[1]))
            keyed = [d for k, d, _ in tr if k == "key" and Q.params(Q.leaves(d)) == {"rnd"}]
            okc = okc and bool(keyed)
            dets.append("%s absorbs %s" % (nm, rids[nm][1]))
        det = "; ".join(dets)
    ctx.add("C02.R2", root + "#element-absorbs-counter", okc,
            "each derived value must be a PRF output keyed by the client randomness that absorbs its own index: %s" % det, at,
            sample=det)
    # the two client APIs (Message::generate, share_with_local_randomness) assign the same element to the same role
    sib = {}
    for root2 in ("sta_rs::Message::generate", "sta_rs::MessageGenerator::share_with_local_randomness"):
        e2, r2, _, _ = ctx.root(root2)
        cn2 = Q.calls(e2, "adss::Commune::new")
        dk2 = Q.calls(e2, "sta_rs::derive_ske_key")
        ok2 = ok_variant(r2, 0)
        tg = None
        if ok2 is not None and ok2[2][0].op == "agg":
            adt = "sta_rs::Message" if root2.endswith("generate") else "sta_rs::WASMSharingMaterial"
            tg = ok2[2][0].args[1 + fidx(ctx, adt, "tag")]
        def ix(t):
            return role_id(t) if t is not None else None
        sib[root2] = (ix(cn2[0]["argv"][1]) if cn2 else None, ix(cn2[0]["argv"][2]) if cn2 else None,
                      ix(dk2[0]["argv"][0]) if dk2 else None, ix(tg))
    vals = list(sib.values())
    ctx.add("C02.R2", "generate~share_with_local_randomness#same-roles", len(vals) == 2 and vals[0] == vals[1] and None not in vals[0],
            "both client APIs must use the same derived element for (ADSS message, coins, key seed, tag); found %s - otherwise one "
            "API publishes as tag what the other uses as secret" % sib, at, sample={k.split("::")[-1]: v for k, v in sib.items()})
    ctx.floor("C02.R2", 3)

    # ---- R3 coefficient freshness and count ---------------------------------------------------------------
    poly_rules(ctx, "C02.R3")

    # ---- R5 (R4, the distinct-count guard of Sharks::recover, is decided under C01/C06: with the MAC gate below it
    #      is not a necessary condition of C02) ---------------------------------------------------------------
    for r in ("adss::recover", "sta_rs::share_recover"):
        e2, ret2, _, _ = ctx.root(r)
        g = c05.weak_mac_gate(e2, ret2, 0, fidx(ctx, "adss::Share", "J"))
        ctx.add("C02.R5", r + "#mac-gate", bool(g), "Ok of %s is not gated by a check of the share's MAC against the rebuilt transcript" % r, ctx.fn(r).loc)
    # threshold bound into the MAC on the verifying side
    ev, retv, _, _ = ctx.root("adss::Commune::verify")
    iA = fidx(ctx, "adss::Commune", "A")
    gate = c05.weak_mac_gate(ev, retv, 0, fidx(ctx, "adss::Share", "J"))
    okb = False
    for t in gate or []:
        for o in Q.find_all(t, lambda z: z.op == "owf" or z.op == "sop"):
            tr = Q.flat_ops(Q.trace_of(o.args[1] if o.op == "owf" else o))
            if any(k == "ad" and d.op == "bytes_of" and d.args[1] == 4 and Q.params(Q.leaves(d)) == {"self.%d.0" % iA} for k, d, _ in tr):
                okb = True
    ctx.add("C02.R5", "adss::Commune::verify#threshold-bound", okb,
            "the verified transcript must absorb the full 4-byte threshold (a forged smaller threshold must change the MAC input)",
            ctx.fn("adss::Commune::verify").loc)
    ctx.floor("C02.R5", 3)

    # ---- R7 a share is never dealt at x = 0 (it would carry the sharing key in the clear) = C06.R3 for gen ----
    from .c06 import gen_nonzero
    gen_nonzero(ctx, "C02.R7")
    ctx.floor("C02.R7", 1)

    # ---- R6 secret and coin provenance --------------------------------------------------------------------
    engs, rets, _, _ = ctx.root("adss::Commune::share")
    dr = Q.calls(engs, "star_sharks::Sharks::dealer_rng")
    at = ctx.fn("adss::Commune::share").loc
    if len(dr) != 1:
        ctx.add("C02.R6", "adss::Commune::share#dealer", False, "expected one dealer_rng call", at)
    else:
        secret, rng = dr[0]["argv"][1], dr[0]["argv"][2]
        CM = "adss::Commune"
        want = {"self.%d.0" % fidx(ctx, CM, "A"), "self.%d" % fidx(ctx, CM, "M"), "self.%d" % fidx(ctx, CM, "R")}
        # K || 0^16 however the buffer is assembled (to_vec + extend, with_capacity + two extend_from_slice, concat ...)
        sp = [p_[1] for p_ in Q.parts_of(secret) if p_[0] in ("part", "base")] if len(Q.parts_of(secret)) == 2 else []
        kterm = sp[0] if sp else None
        n_ = 0
        while kterm is not None and kterm.op in ("refv", "conv", "copied", "collected", "deref") and n_ < 8:
            kterm = kterm.args[0]
            n_ += 1
        oks = len(sp) == 2 and kterm.op == "owf" and kterm.args[0] == "prf" and is_zero_bytes(sp[1])
        ps = Q.params(Q.leaves(secret))
        ctx.add("C02.R6", "adss::Commune::share#secret-is-K-pad", oks and want <= ps,
                "the dealt secret must be K || 0^16 with K a PRF output of the transcript over (A, M, R); found %s depending on %s"
                % (S(secret, 3), sorted(ps)), dr[0]["at"], sample=sorted(ps))
        # coefficient generator = continuation of K's transcript
        trk = Q.trace_of(kterm.args[1]) if oks else []
        trr = Q.trace_of(rng)
        cont = bool(trk) and trr[:len(trk)] == trk
        pr = Q.params(Q.leaves(rng))
        ctx.add("C02.R6", "adss::Commune::share#coefficient-source", cont and want <= pr and not Q.rngs(Q.leaves(rng)),
                "the coefficient generator must be the continuation of the transcript that absorbed threshold, message and "
                "coins (so polynomials differ between measurements); generator transcript: %s" % Q.show_trace(trr, 3),
                dr[0]["at"], sample=Q.show_trace(trr, 3))
    ctx.floor("C02.R6", 2)


def poly_rules(ctx, rule):
    """coefficient provenance of star_sharks::random_polynomial and per-chunk polynomials of dealer_rng"""
    root = "star_sharks::share_ff::random_polynomial"
    eng, ret, st, fr = ctx.root(root)
    fn = ctx.fn(root)
    at = fn.loc
    parts = Q.parts_of(ret) if ret is not None else []
    shape = [p[0] for p in parts]
    # accepted idioms for "one fresh draw per non-constant coefficient, then the secret":
    #   (a) a counted loop pushing one coefficient per iteration      -> [repeat[byte c], byte s]
    #   (b) an iterator over the range mapped through a closure       -> [base collected(mapped(range, c)), byte s]
    #   (c) repeat_with(draw).take(k - 1)                              -> see below
    coef = rng_lo = rng_hi = None
    idiom = None
    if shape == ["repeat", "byte"] and len(parts[0][1]) == 1 and parts[0][1][0][0] == "byte":
        idiom = "loop"
        coef = parts[0][1][0][1]
    elif shape in (["base", "byte"], ["part", "byte"]) and \
            ((parts[0][1].op == "collected" and parts[0][1].args[0].op == "mapped") or
             (parts[0][1].op == "mapped" and (parts[0][1].args[0].op == "range_iter" or parts[0][1].args[0].op == "agg"))):
        # collected into the vector, or appended to it with extend(..)
        m = parts[0][1].args[0] if parts[0][1].op == "collected" else parts[0][1]
        src = m.args[0]
        if src.op == "range_iter" or (src.op == "agg" and src.args[0].endswith("ops::Range")):
            idiom = "map"
            coef = m.args[1]
            rng_lo, rng_hi = (src.args[0], src.args[1]) if src.op == "range_iter" else (src.args[1], src.args[2])
    elif shape in (["part", "byte"], ["base", "byte"]):
        #   (c) repeat_with(draw).take(k - 1) appended / collected                   -> [part take(mapped(unbounded, c), n), byte s]
        src = parts[0][1]
        while src.op in ("collected", "refv"):
            src = src.args[0]
        if src.op == "adapted" and src.args[1] == "take" and src.args[0].op == "mapped" and \
                src.args[0].args[0].op == "iter" and src.args[0].args[0].args[0].op == "unbounded":
            n = src.args[2]
            if n.op in ("saturating_sub", "sub") and is_t(n.args[1]) and n.args[1].op == "int" and n.args[1].args[0] == 1:
                idiom = "take"
                coef = src.args[0].args[1]
                from ..terms import Int
                rng_lo, rng_hi = Int(1), n.args[0]        # k - 1 elements = one per index of 1..k
    ok_shape = idiom is not None
    ctx.add(rule, root + "#shape", ok_shape,
            "the coefficient vector must be one coefficient per index of 1..k (loop push or range.map(..).collect()) followed by the secret; found %s"
            % [(p[0], S(p[1], 3) if is_t(p[1]) else [(q[0], S(q[1], 3)) for q in p[1]]) for p in parts], at,
            sample=str(shape) + " idiom=" + str(idiom))
    if not ok_shape:
        return
    last = parts[1][1]
    ctx.add(rule, root + "#secret-last", Q.path_of(last) == "s",
            "the constant term (pushed last) must be the secret element; found %s" % S(last, 3), at)
    okf = coef.op == "fp_random" and coef.args[0].op == "rng" and Q.path_of(coef.args[0].args[3]) == "rng"
    ctx.add(rule, root + "#fresh-draw-per-coefficient", okf,
            "every non-constant coefficient must be Fp::random(<the supplied generator>) evaluated for that index; found %s"
            % S(coef, 4), at, sample=S(coef, 4))
    # the draw happens once per index of 1..k at full width
    okl = False
    det = "no counted iteration"
    draws = Q.calls(eng, "ff::Field::random") + [e for e in Q.calls(eng, None) if e.get("model") == "m_field_random"]
    draws = [e for e in draws if e["frame"].startswith(fr.key)]
    if idiom == "loop":
        nx = [e for e in Q.calls(eng, "Iterator", in_fn=root) if (e.get("dname") or "").endswith("Iterator::next")]
        if len(nx) == 1 and nx[0]["result"] is not None:
            some = Q.variant(nx[0]["result"], 1)
            if some and some[2] and some[2][0].op == "range_elem":
                rng_lo, rng_hi = some[2][0].args[0], some[2][0].args[1]
        cfg = fr.cfg
        heads = cfg.loop_heads()
        per_index = bool(draws) and all(e["home"] == fr.key and any(cfg.dominates(h, e["home_block"]) and h in cfg.reachable_from(e["home_block"]) for h in heads) for e in draws)
    else:
        # the draw is made inside the closure invoked by map (once per element)
        per_index = bool(draws) and all("#map@" in e["frame"] for e in draws)
    if rng_lo is not None:
        narrow = Q.contains(rng_hi, lambda t: t.op == "cast" and t.args[2] in ("u8", "u16", "i8", "i16"))
        okl = rng_lo.op == "int" and rng_lo.args[0] == 1 and Q.params(Q.leaves(rng_hi)) == {"k"} and not narrow and \
            rng_hi.op in ("cast", "param") and per_index
        det = "indices %s..%s; one draw per index: %s" % (S(rng_lo, 3), S(rng_hi, 4), per_index)
    ctx.add(rule, root + "#loop-1-to-k", okl,
            "there must be exactly one draw per index of 1..k (k the full-width threshold): %s" % det, at, sample=det)
    # one polynomial per secret chunk in dealer_rng, all from the same generator, threshold = self.0
    root2 = "star_sharks::Sharks::dealer_rng"
    eng2, ret2, st2, fr2 = ctx.root(root2)
    rp = Q.calls(eng2, "star_sharks::share_ff::random_polynomial", in_fn=root2)
    at2 = ctx.fn(root2).loc
    okp = len(rp) == 1 and Q.path_of(rp[0]["argv"][1]) == "self.0" and Q.path_of(rp[0]["argv"][2]) == "rng"
    cfg2 = fr2.cfg
    if okp:
        b = rp[0]["home_block"]
        # once per secret chunk: inside the chunk loop, or inside the closure a `map` over the chunks runs per element
        okp = any(cfg2.dominates(h, b) and h in cfg2.reachable_from(b) for h in cfg2.loop_heads()) or "#map@" in rp[0]["frame"]
    ctx.add(rule, root2 + "#one-polynomial-per-chunk", okp,
            "dealer_rng must build one random_polynomial(element, threshold, rng) per secret chunk inside its chunk loop", at2)
    # the degree is the declared threshold - 1 only if ADSS hands Sharks the access structure's threshold as it is
    from .c16 import threshold_unmodified
    threshold_unmodified(ctx, rule, ("adss::Commune::share",), cfg="A!")      # adss exists only in the workspace build
    ctx.floor(rule, 6)
