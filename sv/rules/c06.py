"""C06 - secret sharing is textbook Shamir over GF(2^128+12451)."""
from .. import query as Q
from ..terms import PHI
from .common import S, fidx, ok_variant
from . import c01, c02

EXPLANATION = (
    "Decided statically: (R1) coefficient provenance - one separate draw from the supplied generator per "
    "non-constant coefficient inside the loop 1..threshold, the secret element pushed last, one polynomial per "
    "24-byte secret chunk from the same generator (C02.R3 rules); (R2) Horner evaluation: the fold in "
    "Evaluator::evaluate starts from ZERO and computes acc * x + c over the coefficient vector in stored order "
    "(highest degree first), once per polynomial; (R3) x != 0 for both share sources: the sequential iterator "
    "evaluates at the counter after adding ONE, starting from ZERO, and Evaluator::gen passes a point to evaluate "
    "only on the `is_zero == false` edge; (R4) secret elements are decoded by from_repr and an out-of-range element "
    "returns Err (the unwrap is dominated by the validity test; nothing is substituted); (R5) recovery guards: "
    "distinct-x set insertion guards the interpolation vector, refusal iff fewer than threshold distinct points or "
    "none, unequal y-lengths are refused, interpolation receives the first `threshold` stored shares and refuses an "
    "empty list; (R6) the bytes interpolate returns are, element by element, the complete to_repr encoding of the interpolated "
    "value, and Vec<u8>::from(Fp) is the complete to_repr of its argument.  NOT decided: agreement of values with an independent big-integer implementation, correctness of "
    "Lagrange interpolation (both are numeric relations over runtime values).")
ASSUMPTIONS = ["ff-derived field operations implement field arithmetic (C07)"]
TRUSTED = []

EV = "star_sharks::share_ff::Evaluator"


def gen_nonzero(ctx, rule):
    root = EV + "::gen"
    eng, ret, st, fr = ctx.root(root)
    at = ctx.fn(root).loc
    evs = Q.calls(eng, EV + "::evaluate")
    okg = bool(evs)
    det = "no evaluate call"
    for e in evs:
        px = e["argv"][1]
        fs = Q.closure(eng, eng.facts_at(e["frame"], e["block"]))
        nz = [f for f in fs if f[0].op == "is_zero" and f[1:] == ("eq", 0) and f[0].args[0] is px]
        ne = [f for f in fs if f[0].op == "eq" and f[1:] == ("eq", 0) and any(a is px for a in f[0].args) and
              any(Q.contains(a, lambda t: t.op == "constdef" and "ZERO" in str(t.args[0])) for a in f[0].args)]
        const_nz = Q.contains(px, lambda t: t.op == "constdef" and ("::ONE" in str(t.args[0]) or "share_ff::R" in str(t.args[0]))) and not Q.rngs(Q.leaves(px))
        if not (nz or ne or const_nz):
            okg = False
        det = "point %s; dominating facts %s" % (S(px, 3), [Q.show_fact(f, 3) for f in fs])
    ctx.add(rule, root + "#point-proven-nonzero", okg,
            "a random share must be evaluated only at a point known to be non-zero on every path (a share at x = 0 is the secret itself): %s" % det,
            evs[0]["at"] if evs else at, sample=det)


def dealer_decode_rules(ctx, rule):
    """the dealer decodes each secret chunk canonically, uses it only where valid, and reports an out-of-range chunk as an
    error (shared: C06.R4, C07.R4)"""
    root = "star_sharks::Sharks::dealer_rng"
    eng, ret, st, fr = ctx.root(root)
    at = ctx.fn(root).loc
    # the decoded element is used (unwrapped, or converted into an Option and taken) only where its validity is established
    un = [e for e in Q.calls(eng, None) if e.get("model") == "m_ct_unwrap" and e["home"] == fr.key]
    okun = True
    for e in un:
        fs = Q.closure(eng, eng.facts_at(e["frame"], e["block"]))
        if not any(t.op == "ct_valid" and rel == "eq" and v == 1 and t.args[0] is e["args"][0] for t, rel, v in fs):
            okun = False
    rp_ = Q.calls(eng, "star_sharks::share_ff::random_polynomial", in_fn=root)
    okuse = bool(rp_)
    for e in rp_:
        el_ = e["argv"][0]
        fs = Q.closure(eng, eng.facts_at(e["frame"], e["block"]))
        if not (el_.op == "ct_value" and any(t.op == "ct_valid" and rel == "eq" and v == 1 and t.args[0] is el_.args[0] for t, rel, v in fs)):
            okuse = False
    ctx.add(rule, root + "#unwrap-after-validity", okun and okuse,
            "the decoded secret element may be taken out of its CtOption only where `is valid` is established (unwraps checked: %d, "
            "uses as constant term checked: %d)" % (len(un), len(rp_)), un[0]["at"] if un else at)
    err = Q.variant(ret, 1)
    okerr = False
    for (fk, b) in (err[4] if err else ()):
        f = Q.closure(eng, eng.facts_at(fk, b))
        if any(t.op == "ct_valid" and rel == "eq" and v == 0 for t, rel, v in f):
            okerr = True
    ctx.add(rule, root + "#invalid-element-is-error", okerr, "an out-of-range secret element must produce Err (not a substituted value)", at)
    rp = Q.calls(eng, "star_sharks::share_ff::random_polynomial", in_fn=root)
    okel = len(rp) == 1 and rp[0]["argv"][0].op == "ct_value" and rp[0]["argv"][0].args[0].op == "fp_from_repr"
    ctx.add(rule, root + "#constant-term-is-decoded-element", okel,
            "the polynomial's constant term must be exactly the element decoded from the secret chunk; found %s" % (S(rp[0]["argv"][0], 4) if rp else None), at)


def run(ctx):
    c02.poly_rules(ctx, "C06.R1")

    # ---- R2 Horner ------------------------------------------------------------------------------------------
    root = EV + "::evaluate"
    eng, ret, st, fr = ctx.root(root)
    at = ctx.fn(root).loc
    SS = "star_sharks::share_ff::Share"
    ok = ret is not None and ret.op == "agg"
    if ok:
        x = ret.args[1 + fidx(ctx, SS, "x")]
        y = ret.args[1 + fidx(ctx, SS, "y")]
        ctx.add("C06.R2", root + "#share-x-is-the-point", Q.path_of(x) == "x", "the share's x must be the evaluation point; found %s" % S(x, 3), at)
        # the value stored per polynomial: the mapped element of a collected iterator, or the one value pushed per
        # iteration of a loop over all polynomials
        el, src = y, None
        if y.op == "collected" and y.args[0].op == "mapped":
            el, src = y.args[0].args[1], Q.whole_of(y, eng, True)
        elif Q.is_loop_acc(y):
            pr = Q.parts_of(y)
            if len(pr) == 1 and pr[0][0] == "repeat" and len(pr[0][1]) == 1 and pr[0][1][0][0] == "byte":
                el, src = pr[0][1][0][1], Q.whole_of(y, eng, True)
        folds = Q.find_all(el, lambda t: t.op == "fold" or Q.is_loop_acc(t))
        okh = False
        det = S(y, 5)
        fv = Q.fold_view(folds[0], eng) if len(folds) == 1 else None
        if fv is not None and fv[2] is not None:
            init, body, it, acc = fv
            zero = Q.contains(init, lambda t: t.op == "constdef" and "ZERO" in str(t.args[0])) or (init.op == "agg" and Q.leaves(init) == set())
            shape = body.op == "alg_add" and any(
                a.op == "alg_mul" and any(z is acc for z in a.args) and any(Q.path_of(z) == "x" for z in a.args) and
                Q.contains(b, lambda t: t.op == "elem") and not Q.contains(b, lambda t: t is acc)
                for a, b in ((body.args[0], body.args[1]), (body.args[1], body.args[0])))
            order = it.op == "iter" and not Q.contains(it, lambda t: t.op == "adapted")
            per_poly = src is not None and Q.path_of(src) == "self.%d" % fidx(ctx, EV, "polys")
            okh = zero and shape and order and per_poly
            det = "init zero: %s, acc*x + c: %s, stored order: %s, one value per polynomial: %s" % (zero, shape, order, per_poly)
        ctx.add("C06.R2", root + "#horner", okh, "evaluation must be the Horner fold acc*x + c from ZERO over the stored coefficient order: %s" % det, at, sample=det)
    else:
        ctx.add("C06.R2", root + "#shape", False, "evaluate must return a Share aggregate", at)
    ctx.floor("C06.R2", 2)

    # ---- R3 x != 0 ------------------------------------------------------------------------------------------------
    ix = fidx(ctx, EV, "x")
    root = "star_sharks::<share_ff::Evaluator as std::iter::Iterator>::next"
    eng, ret, st, fr = ctx.root(root)
    at = ctx.fn(root).loc
    evs = Q.calls(eng, EV + "::evaluate")
    okn = False
    det = "no evaluate call"
    if len(evs) == 1:
        px = evs[0]["argv"][1]
        inc = px.op == "alg_add" and any(Q.path_of(a) == "self.%d" % ix for a in px.args) and \
            any(Q.contains(a, lambda t: t.op == "constdef" and ("::ONE" in str(t.args[0]) or "share_ff::R" in str(t.args[0]))) for a in px.args)
        from ..sym import field
        stored = field(st.get(("param", "self")), ix) if st else None
        okn = inc and stored is px
        det = "point %s, stored counter %s" % (S(px, 4), S(stored, 4))
    ctx.add("C06.R3", root + "#evaluates-after-increment", okn,
            "the iterator must evaluate at the counter after adding ONE and store that counter: %s" % det, at, sample=det)
    root = "star_sharks::share_ff::get_evaluator"
    eng, ret, st, fr = ctx.root(root)
    okz = ret is not None and ret.op == "agg" and Q.contains(ret.args[1 + ix], lambda t: t.op == "constdef" and "ZERO" in str(t.args[0]))
    ctx.add("C06.R3", root + "#starts-at-zero", okz, "the iterator's counter must start at ZERO (first share at x = 1); found %s" % S(ret, 3), ctx.fn(root).loc)
    gen_nonzero(ctx, "C06.R3")
    ctx.floor("C06.R3", 3)

    # ---- R4 out-of-range refusal --------------------------------------------------------------------------------
    dealer_decode_rules(ctx, "C06.R4")
    ctx.floor("C06.R4", 3)

    # ---- R5 recovery guards -----------------------------------------------------------------------------------------
    c01.recover_guards(ctx, "C06.R5")
    root = "star_sharks::Sharks::recover"
    eng, ret, st, fr = ctx.root(root)
    err = Q.variant(ret, 1)
    okl = False
    iy_ = fidx(ctx, "star_sharks::share_ff::Share", "y")
    for (fk, b) in (err[4] if err else ()):
        frx = eng.frames.get(fk)
        if frx is None:
            continue
        bb = Q.origin_block(b)
        home = eng.home_of(frx, bb if isinstance(bb, int) else 0)
        if fk != fr.key and home[0] != fr.key:
            continue          # (a newly extracted helper of recover is part of recover)
        f = Q.closure(eng, eng.facts_at(fk, b))
        # the error is returned where the y-length of the share at hand differs from the expected one - however the
        # expected length is kept (an Option cell, the first stored share's own length, ...)
        if any(t.op == "eq" and rel == "eq" and v == 0 and
               Q.contains(t, lambda z: z.op == "len" and (Q.path_of(z.args[0]) or "").endswith(".%d" % iy_)) and
               (Q.contains(t, lambda z: z.op == "enum") or Q.contains(t, lambda z: z.op == "phi"))
               for t, rel, v in f):
            okl = True
    ctx.add("C06.R5", root + "#unequal-length-refused", okl, "shares of unequal y-length must be refused with Err", ctx.fn(root).loc)
    e3, ret3, _, _ = ctx.root("star_sharks::share_ff::interpolate")
    f3 = Q.facts_of_variant(e3, ret3, 0) or set()
    ne = any(f[0].op == "eq" and f[1:] == ("eq", 0) and Q.contains(f[0], lambda t: t.op == "len" and Q.path_of(t.args[0]) == "shares") for f in f3)
    ctx.add("C06.R5", "star_sharks::share_ff::interpolate#empty-refused", ne, "interpolate must refuse an empty share list", ctx.fn("star_sharks::share_ff::interpolate").loc)
    ctx.floor("C06.R5", 8)

    # ---- R6 the recovered bytes are the complete canonical encodings of the interpolated elements ------------------
    from .common import complete_repr
    okv = Q.variant(ret3, 0)

    def element_bytes(v, depth=0):
        """per-element byte terms of every alternative value of the output ([] for an empty output); None = unrecognised"""
        if v.op == "vec_new":
            return []
        if v.op == "collected" and v.args[0].op == "flat_mapped":
            return [v.args[0].args[1]]               # indices.flat_map(|s| bytes_of_element(s)).collect()
        if v.op == "concat":
            src = v.args[0]
            while src.op in ("collected", "iter", "refv"):
                src = src.args[0]
            if src.op == "mapped":
                return [src.args[1]]                 # per_element_vectors.concat()
            return None
        if v.op == "fold":
            init, app = v.args[0], v.args[1]
            if init.op == "vec_new" and app.op == "append" and app.args[0].op == "acc":
                el = app.args[1]
                src = el.args[0] if el.op == "elem" else None
                while src is not None and src.op in ("collected", "iter", "refv"):
                    src = src.args[0]
                if src is not None and src.op == "mapped":
                    return [src.args[1]]
            return None
        if v.op == "phi":
            pr = Q.parts_of(v)
            if len(pr) == 1 and pr[0][0] == "repeat" and len(pr[0][1]) == 1 and pr[0][1][0][0] == "part":
                return [pr[0][1][0][1]]          # a loop appending one element encoding per iteration
            if depth < 4 and not Q.is_loop_acc(v):
                out = []
                for w in (PHI.get(v.args[0]) or {}).values():
                    r = element_bytes(w, depth + 1)
                    if r is None:
                        return None
                    out += r
                return out
        return None
    bodies = element_bytes(okv[2][0]) if okv is not None and okv[2] else None
    els6 = [complete_repr(b_) for b_ in bodies] if bodies else []
    ok6 = bool(bodies) and all(e_ is not None and (e_.op in ("fold", "phi")) for e_ in els6)
    ctx.add("C06.R6", "star_sharks::share_ff::interpolate#output-is-complete-repr-of-each-element", ok6,
            "the secret bytes returned must be, element by element, the complete 24-byte canonical encoding of the interpolated "
            "value (a truncated or padded partial copy alters elements >= 2^128); per-element bytes: %s" % [S(b_, 4) for b_ in (bodies or [])],
            ctx.fn("star_sharks::share_ff::interpolate").loc, sample=[S(b_, 3) for b_ in (bodies or [])])
    wroot = "star_sharks::share_ff::<impl std::convert::From<share_ff::Fp> for std::vec::Vec<u8>>::from"
    e6, r6, _, _ = ctx.root(wroot)
    src6 = complete_repr(r6) if r6 is not None else None
    ctx.add("C06.R6", "star_sharks::share_ff::From<Fp>-for-Vec<u8>#complete-repr", src6 is not None and Q.path_of(src6) == "s",
            "Vec<u8>::from(Fp) must return the complete canonical encoding of its argument; found %s" % S(r6, 4), ctx.fn(wroot).loc)
    ctx.floor("C06.R6", 2)
