"""C15 - PPOPRF public keys, proofs, points and evaluations survive serialisation."""
from .. import query as Q
from .common import S, fidx, fields, ok_variant

EXPLANATION = (
    "Decided statically: (R1) in both binary loaders bincode::deserialize is reached only when NOT (len(data) > "
    "limit), the refusal SerializedDataTooBig is returned on the other edge, and the limits are the documented "
    "constants 16384 (public key) and 64 (proof), each used by its own loader; (R2) the JSON point adapters agree: "
    "encoder and decoder use the same base64 engine constant, the decoder accepts exactly 32 decoded bytes, "
    "Evaluation.output is wired to this pair in both directions, and ProofDLEQ / ServerPublicKey / Point derive "
    "both Serialize and Deserialize; (R4) both binary encoders return exactly bincode::serialize(self); (R5) every derived Serialize in ppoprf writes each declared field exactly once on every path and no derived "
    "Deserialize substitutes a default for a missing element (bincode is positional and not self-describing); (R3) decode errors (serde, base64, length) flow into the returned Err - the "
    "Ok value is exactly the decoder's payload.  NOT decided: equality of restored and original values (round "
    "trip is a runtime relation), behaviour of bincode/serde themselves."
    "  Also (R5) the only hand-written field codecs reached from derived serde code are the reviewed point_serialize / point_deserialize of Evaluation.output; (R6 = C11.R4, feature key-sync) the key-state structs have equal field tables, export borrows the live fields and import replaces all three components with the decoded ones.")
ASSUMPTIONS = ["bincode 1.3 / serde derive produce symmetric encodings for derived Serialize/Deserialize"]
TRUSTED = []

P = "ppoprf::ppoprf::"


def const_value(ctx, name):
    f = ctx.fn(name)
    for b in f.blocks:
        for s in b["s"]:
            r = s.get("r")
            if r and "use" in r and "k" in r["use"] and "int" in r["use"]["k"]:
                return int(r["use"]["k"]["int"])
    return None


def run(ctx):
    limits = {P + "ServerPublicKey::load_from_bincode": ("MAX_SERIALIZED_PK_SIZE", 16384),
              P + "ProofDLEQ::load_from_bincode": ("MAX_SERIALIZED_PROOF_SIZE", 64)}
    for root, (cname, want) in limits.items():
        eng, ret, st, fr = ctx.root(root)
        at = ctx.fn(root).loc
        cv = const_value(ctx, P + cname)
        ctx.add("C15.R1", P + cname + "#value", cv == want, "%s must be %d (found %s)" % (cname, want, cv), ctx.fn(P + cname).loc, sample=cv)
        de = [e for e in Q.calls(eng, "bincode::deserialize") if e["home"] == fr.key]
        okg = False
        det = "no deserialize call"
        from .. import lin
        from ..terms import mk
        ln = mk("len", mk("param", "data"))
        if len(de) == 1:
            fs = Q.closure(eng, eng.facts_at(de[0]["frame"], de[0]["block"]))
            L = lin.Ctx()
            for f in fs:
                L.add_fact(f)
            upper = lin.entails(L, L.lin(ln).add(lin.Lin(want), -1))                    # len <= want
            tight = not lin.infeasible(L.constraints() + [lin.Lin(want).add(L.lin(ln), -1)])  # len == want is allowed
            det = "decode reached only if len(data) <= %d: %s; len(data) == %d still accepted: %s" % (want, upper, want, tight)
            okg = upper and tight and Q.path_of(de[0]["argv"][0]) == "data"
        ctx.add("C15.R1", root + "#size-guard-dominates-decode", okg,
                "deserialisation must be reached only when len(data) <= %d: %s" % (want, det), de[0]["at"] if de else at, sample=det)
        # refusal on the other edge
        err = Q.variant(ret, 1)
        okr = False
        for (fk, b) in (err[4] if err else ()):
            f = Q.closure(eng, eng.facts_at(fk, b))
            L = lin.Ctx()
            for x in f:
                L.add_fact(x)
            if lin.entails(L, lin.Lin(want + 1).add(L.lin(ln), -1)):       # len >= want + 1
                okr = True
        ctx.add("C15.R1", root + "#too-big-refused", okr, "oversized input must be refused with an error", at)
        # R3: Ok is exactly the decoder's payload, Err carries the decoder's error
        okv = ok_variant(ret, 0)
        okp = okv is not None and okv[2][0].op == "bincode_de" and Q.path_of(okv[2][0].args[0]) == "data"
        ctx.add("C15.R3", root + "#ok-is-decoded-value", okp,
                "the loader's Ok must be exactly the value decoded from the whole input; found %s" % S(okv[2][0] if okv else None, 3), at)
        fs0 = Q.facts_of_variant(eng, ret, 0) or set()
        ctx.add("C15.R3", root + "#ok-requires-valid-encoding", any(t.op == "bincode_valid" and v == 1 for t, rel, v in fs0),
                "Ok must require that decoding succeeded", at)
    # ---- R4 the binary encoders return exactly the bincode encoding of the value (nothing appended, no shared scratch)
    for root in (P + "ServerPublicKey::serialize_to_bincode", P + "ProofDLEQ::serialize_to_bincode"):
        eng, ret, st, fr = ctx.root(root)
        okv = ok_variant(ret, 0)
        pay = okv[2][0] if okv else None
        oks = pay is not None and pay.op == "bincode_ser" and Q.path_of(pay.args[0]) == "self"
        ctx.add("C15.R4", root + "#returns-the-encoding", oks,
                "serialize_to_bincode must return exactly bincode::serialize(self); found %s" % S(pay, 4), ctx.fn(root).loc, sample=S(pay, 3))
    ctx.floor("C15.R4", 2)
    ctx.floor("C15.R1", 6)

    # ---- R2 adapter agreement ---------------------------------------------------------------------------------
    rs, rd = P + "point_serialize", P + "point_deserialize"
    engs, rets, _, _ = ctx.root(rs)
    engd, retd, _, _ = ctx.root(rd)
    at = ctx.fn(rd).loc
    enc = Q.find_all(rets, lambda t: t.op == "b64enc") if rets is not None else []
    dec = Q.find_all(retd, lambda t: t.op == "b64dec") if retd is not None else []

    def engine_name(t):
        c = Q.find_all(t, lambda x: x.op == "constdef")
        return c[0].args[1] if c else S(t, 2)
    def engine_const(ctx, root, eng):
        # the engine argument is a constant (promoted &GeneralPurpose): compare its defining constant by evaluation
        evs = [e for e in Q.calls(eng, "base64::Engine::")]
        return [S(e["argv"][0], 6) for e in evs]
    e1 = [e for e in Q.calls(engs, "base64::Engine::encode")]
    e2 = [e for e in Q.calls(engd, "base64::Engine::decode")]
    same_engine = len(e1) == 1 and len(e2) == 1 and _engine_id(ctx, e1[0]) == _engine_id(ctx, e2[0]) and _engine_id(ctx, e1[0]) is not None
    ctx.add("C15.R2", "point_serialize~point_deserialize#same-base64-engine", same_engine,
            "encoder and decoder must use the same base64 engine; found %s / %s" % (_engine_id(ctx, e1[0]) if e1 else None, _engine_id(ctx, e2[0]) if e2 else None), at,
            sample={"encode": _engine_id(ctx, e1[0]) if e1 else None, "decode": _engine_id(ctx, e2[0]) if e2 else None})
    ctx.add("C15.R2", rs + "#encodes-point-bytes", len(enc) == 1 and Q.params(Q.leaves(enc[0].args[1])) and
            Q.params(Q.leaves(enc[0].args[1])) <= {"p", "p.0", "p.0.0"} and not Q.rngs(Q.leaves(enc[0].args[1])) and
            not Q.contains(enc[0].args[1], lambda t: t.op in ("slice", "index", "owf")),
            "the serialiser must encode exactly the 32 compressed point bytes", ctx.fn(rs).loc)
    fs = Q.facts_of_variant(engd, retd, 0) or set()
    exact = any(t.op == "eq" and rel == "eq" and v == 1 and t.args[0].op == "len" and t.args[0].args[0].op == "b64dec" and
                t.args[1].op == "int" and t.args[1].args[0] == 32 for t, rel, v in fs)
    ctx.add("C15.R2", rd + "#exactly-32-bytes", exact,
            "the decoder must accept only inputs that decode to exactly 32 bytes", at)
    valid = any(t.op == "b64_valid" and rel == "eq" and v == 1 for t, rel, v in fs)
    ctx.add("C15.R3", rd + "#decode-error-propagates", valid, "Ok must require that base64 decoding succeeded", at)
    okv = ok_variant(retd, 0)
    okpt = okv is not None and len(dec) == 1 and Q.contains(okv[2][0], lambda t: t.op in ("as_array", "copied") and t.args[0] is dec[0])    # try_into / copy_from_slice: the whole value
    ctx.add("C15.R3", rd + "#point-is-decoded-bytes", okpt, "the restored point must consist of exactly the decoded bytes; found %s" % S(okv[2][0] if okv else None, 5), at)
    # Evaluation.output uses this adapter pair in both directions: the derived impls call them
    F = ctx.F("A")
    users = {"ser": [], "de": []}
    for f in F.fns.values():
        if f.crate != "ppoprf" or not f.derived:
            continue
        for _, _, k in F.callees(f):
            if k and "fn" in k:
                g = F.fns.get(k["fn"])
                if g is not None and g.name == rs:
                    users["ser"].append(f.name)
                if g is not None and g.name == rd:
                    users["de"].append(f.name)
    okw = any("Evaluation" in u and "Serialize" in u for u in users["ser"]) and any("Evaluation" in u or "__DeserializeWith" in u for u in users["de"])
    ctx.add("C15.R2", "Evaluation.output#adapter-pair-wired", okw,
            "Evaluation's derived Serialize/Deserialize must call point_serialize / point_deserialize; callers: %s" % users,
            F.adt("ppoprf::ppoprf::Evaluation")["loc"], sample=users)
    for adt in ("ProofDLEQ", "ServerPublicKey", "Point", "Evaluation"):
        ims = [im for im in F.impls if im["crate"] == "ppoprf" and im["self_ty"].split("::")[-1] == adt and im["trait"] and
               ("Serialize" in im["trait"] or "Deserialize" in im["trait"]) and im["exp"] and "derive" in im["exp"]]
        kinds = {"ser" if "Serialize" in im["trait"].split("::")[-1] and "Deserialize" not in im["trait"].split("::")[-1] else "de" for im in ims}
        ctx.add("C15.R2", "ppoprf::ppoprf::%s#derives-both" % adt, kinds == {"ser", "de"},
                "%s must derive both Serialize and Deserialize (symmetric by construction); found %s" % (adt, sorted(im["trait"] for im in ims)),
                F.adt("ppoprf::ppoprf::" + adt)["loc"])
    ctx.floor("C15.R2", 8)
    ctx.floor("C15.R3", 6)
    derived_codecs_positional(ctx, "C15.R5")
    custom_field_codecs(ctx, "C15.R5")
    ctx.floor("C15.R5", 6)
    # ---- R6 the key-state codec (feature key-sync): owned / borrowed structs have the same field table, export borrows the
    #         live fields, import replaces every component with the decoded one (C11.R4 re-run) - a restored key state
    #         that keeps a stale public key is not the one that was serialised
    from . import c11
    c11.export_import(ctx, "C15.R6")
    ctx.floor("C15.R6", 6)


def derived_codecs_positional(ctx, rule, cfg="A"):
    """bincode is positional and not self-describing: a derived Serialize must write every declared field exactly once and
    unconditionally (no skip_serializing_if), and the derived Deserialize must not substitute defaults for missing
    elements (no #[serde(default)]) - otherwise some value does not survive the round trip"""
    from ..cfg import cfg_of
    F = ctx.F(cfg)
    for f in sorted(F.fns.values(), key=lambda x: x.name):
        if f.crate != "ppoprf" or not f.derived or not f.name.endswith("::serialize") or "Serialize for" not in f.name:
            continue
        adt = f.name.split("Serialize for ")[1].split(">")[0]
        cands = [a for n, a in F.adts.items() if n.startswith("ppoprf::") and n.split("::")[-1] == adt.split("::")[-1]]
        if len(cands) != 1 or not cands[0]["variants"]:
            continue
        nfields = len(cands[0]["variants"][0]["fields"])
        calls = [(bi, (k or {}).get("name") or (k or {}).get("dname") or "") for bi, t, k in F.callees(f)]
        sf = [bi for bi, n in calls if n.endswith("SerializeStruct::serialize_field")]
        end = [bi for bi, n in calls if n.endswith("SerializeStruct::end")]
        skip = [bi for bi, n in calls if "skip_field" in n]
        if not end:
            continue        # newtype / adapter structs: nothing positional to check
        cfg_ = cfg_of(f)
        uncond = all(cfg_.dominates(b, end[0]) for b in sf)
        ok = len(sf) == nfields and not skip and uncond and len(end) == 1
        ctx.add(rule, "ppoprf::%s#serialize-writes-every-field" % adt.split("::")[-1], ok,
                "derived Serialize of %s must write each of its %d fields exactly once, unconditionally (found %d writes, %d skips, "
                "all on every path: %s)" % (adt, nfields, len(sf), len(skip), uncond), f.loc,
                sample={"fields": nfields, "serialize_field_calls": len(sf)})
        # the matching Deserialize visitor must not fall back to defaults
        des = [g for g in F.fns.values() if g.crate == "ppoprf" and g.derived and ("Deserialize<'de> for " + adt + ">") in g.name]
        dflt = []
        for g in des:
            for bi, t, k in F.callees(g):
                n = (k or {}).get("name") or (k or {}).get("dname") or ""
                if n.endswith("Default::default") or "Default>::default" in n or "unwrap_or_default" in n:
                    dflt.append("%s (%s)" % (g.name.split("::")[-1], t.get("at")))
        ctx.add(rule, "ppoprf::%s#deserialize-no-defaults" % adt.split("::")[-1], not dflt and bool(des),
                "derived Deserialize of %s must fail on a missing element, not substitute a default: %s" % (adt, dflt), f.loc)


def custom_field_codecs(ctx, rule, cfg="A"):
    """who-may-be-called from derived (de)serializers: a `#[serde(serialize_with / deserialize_with = ..)]` field codec
    replaces the derived, symmetric encoding of that field by hand-written code.  The reviewed table is: Evaluation.output
    through point_serialize / point_deserialize (decided by C15.R2/R4).  Any other hand-written codec reached from derived
    serde code - e.g. a map visitor that stops reading early - is outside what the round-trip rules cover."""
    F = ctx.F(cfg)
    reviewed = {}
    for nm in ("ppoprf::ppoprf::point_serialize", "ppoprf::ppoprf::point_deserialize"):
        try:
            reviewed[ctx.fn(nm, cfg).name] = "Evaluation"
        except Exception:
            pass
    found = set()
    for f in F.fns.values():
        if f.crate != "ppoprf" or not f.derived or "serde" not in f.name:
            continue
        for bi, t, k in F.callees(f):
            g = F.fns.get((k or {}).get("fn") or "")
            if g is not None and g.crate == "ppoprf" and not g.derived and "::tests::" not in g.name:
                owner = f.name.split(" for ")[-1].split(">")[0].split("::")[-1] if " for " in f.name else f.name
                found.add((owner, g.name))
    bad = sorted((o, g) for o, g in found if not (g in reviewed and o.startswith(reviewed[g])))
    ctx.add(rule, "ppoprf#custom-field-codecs", not bad and len(found) >= 2,
            "hand-written field codecs reached from derived serde code must be the reviewed ones (Evaluation.output via "
            "point_serialize / point_deserialize); others: %s" % bad, F.fns[bad[0][1]].loc if bad else ctx.fn("ppoprf::ppoprf::point_deserialize", cfg).loc,
            sample={"found": sorted("%s -> %s" % (o, g.split("::")[-1]) for o, g in found)})


def _engine_id(ctx, ev):
    """identity of the base64 engine constant passed to encode/decode: the promoted constant's evaluated body"""
    a = ev["argv"][0]
    return S(a, 8)
