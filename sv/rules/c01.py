"""C01 - threshold recovery: >= t matching reports always reveal measurement and aux."""
from .. import query as Q
from ..terms import PHI, is_t
from .common import S, fidx, ok_variant

EXPLANATION = (
    "Decided statically (necessary conditions, each for all inputs): (R1) the client derives its payload key from the "
    "very value it hands to ADSS as the shared message, and with its own epoch - the only thing the server can "
    "recompute; (R2) Ciphertext::new / decrypt and (R3) the ADSS share / recover ciphers run the same Strobe "
    "transcript (label, key, message before coins); (R4) in Sharks::recover a share enters the interpolation vector "
    "only when the insertion of its x-encoding into the distinctness set succeeded, refusal happens iff that set is "
    "empty or smaller than the threshold, and interpolation gets the first `threshold` stored shares; (R5) the "
    "sharing polynomial is a deterministic function of (threshold, r0, r1) - no RNG atom reaches the dealer; (R7) the "
    "payload is len|measurement followed by len|aux exactly when aux is Some (no further condition); (R8) no failure site of client generation, key derivation, decryption or report encoding depends on the measurement, epoch, threshold, randomness or associated data (discharged by the C09 engine), so no honest input can make a step of recovery crash.  Codec "
    "agreement (R6) is decided under C08.  NOT decided: that Lagrange interpolation at 0 returns the constant "
    "term, that Strobe decrypts what it encrypted, any statement about concrete thresholds / subsets."
    "  Also (R2) encryption and decryption use opposite Strobe directions (send_enc / recv_enc), and (R7) no length header passes through an integer type narrower than its 4 bytes.")
ASSUMPTIONS = ["Strobe send_enc/recv_enc under equal transcripts are inverse (trusted: strobe-rs)",
               "BTreeSet::insert returns true iff the value was not present (std)"]
TRUSTED = []


def run(ctx):
    MG = "sta_rs::MessageGenerator"
    ie = fidx(ctx, MG, "epoch")
    # ---- R1 key symmetry --------------------------------------------------------------------------------
    for root, selfname in (("sta_rs::Message::generate", "mg"),
                           ("sta_rs::MessageGenerator::share_with_local_randomness", "self")):
        eng, ret, st, fr = ctx.root(root)
        at = ctx.fn(root).loc
        cn = Q.calls(eng, "adss::Commune::new")
        dk = Q.calls(eng, "sta_rs::derive_ske_key")
        ok = len(cn) == 1 and len(dk) >= 1
        if ok:
            msg = cn[0]["argv"][1]
            r1 = dk[0]["argv"][0]
            ep = dk[0]["argv"][1]
            same = msg is r1
            epok = Q.path_of(ep) == "%s.%d" % (selfname, ie)
            ctx.add("C01.R1", root + "#key-seed-is-adss-message", same,
                    "the value shared through ADSS (%s) differs from the value the payload key is derived from (%s): the "
                    "server can only derive the key from the recovered ADSS message" % (S(msg, 4), S(r1, 4)),
                    dk[0]["at"], sample={"adss_message": S(msg, 4), "key_input": S(r1, 4)})
            ctx.add("C01.R1", root + "#key-epoch", epok,
                    "the payload key must be derived with the generator's own epoch; found %s" % S(ep, 4), dk[0]["at"])
        else:
            ctx.add("C01.R1", root + "#calls", False,
                    "expected one Commune::new and a derive_ske_key call (found %d / %d)" % (len(cn), len(dk)), at)

    # ---- R2 Ciphertext::new vs decrypt ------------------------------------------------------------------
    payload_cipher_agreement(ctx, "C01.R2")

    adss_cipher_agreement(ctx, "C01.R3")

    # ---- R4 interpolation input ---------------------------------------------------------------------------
    recover_guards(ctx, "C01.R4")

    # ---- R5 deterministic polynomial ----------------------------------------------------------------------
    engs, rets, sts, frs = ctx.root("adss::Commune::share")
    dr = Q.calls(engs, "star_sharks::Sharks::dealer_rng")
    at = ctx.fn("adss::Commune::share").loc
    if len(dr) == 1:
        rn = Q.rngs(Q.leaves(dr[0]["argv"][1])) | Q.rngs(Q.leaves(dr[0]["argv"][2]))
        ps = Q.params(Q.leaves(dr[0]["argv"][1])) | Q.params(Q.leaves(dr[0]["argv"][2]))
        ctx.add("C01.R5", "adss::Commune::share#dealer-inputs-deterministic", not rn,
                "the secret and the coefficient source handed to the dealer must not depend on any RNG draw; found %s"
                % sorted(map(str, rn)), dr[0]["at"], sample={"dealer_inputs_depend_on": sorted(ps)})
    else:
        ctx.add("C01.R5", "adss::Commune::share#dealer-call", False, "expected exactly one dealer_rng call, found %d" % len(dr), at)

    # ---- R7 payload framing -------------------------------------------------------------------------------
    payload_framing(ctx, "C01.R7")
    # ---- R8 no measurement / epoch / aux / threshold value can crash generation, key derivation, decryption or the
    #         report codec (PANIC engine of C09 with the honest inputs as the varying data; allocation sizes excluded)
    from . import c09
    ix_ = fidx(ctx, MG, "x")
    c09.run_entries(ctx, "C01.R8", [
        ("sta_rs::Message::generate", {"mg", "rnd", "aux"}, "A"),
        ("sta_rs::MessageGenerator::share_with_local_randomness", {"self"}, "A"),
        ("sta_rs::derive_ske_key", {"r1", "epoch"}, "A"),
        ("sta_rs::Ciphertext::decrypt", {"self", "enc_key_buf", "label"}, "A"),
    ], 64, skip_kinds=("alloc",))
    # ---- R9 every supplied share reaches the distinctness filter; every honest report decodes ---------------------
    complete_share_flow(ctx, "C01.R9")
    from . import c08
    c08.message_reader_accepts_honest(ctx, "C01.R9")
    ctx.floor("C01.R9", 4)
    ctx.floor("C01.R8.ENTRY", 4)
    ctx.floor("C01.R1", 4)
    ctx.floor("C01.R2", 4)
    ctx.floor("C01.R3", 2)
    ctx.floor("C01.R4", 6)
    ctx.floor("C01.R5", 1)
    ctx.floor("C01.R7", 3)


def adss_cipher_agreement(ctx, rule):
    # ---- R3 ADSS cipher agreement -------------------------------------------------------------------------
    SH = "adss::Share"
    sC, sD = fidx(ctx, SH, "C"), fidx(ctx, SH, "D")
    CM = "adss::Commune"
    iM, iR = fidx(ctx, CM, "M"), fidx(ctx, CM, "R")
    engs, rets, sts, frs = ctx.root("adss::Commune::share")
    engr, retr, str_, frr = ctx.root("adss::recover")
    at = ctx.fn("adss::recover").loc
    oks, okr = ok_variant(rets, 0), ok_variant(retr, 0)
    if oks is None or okr is None or oks[2][0].op != "agg" or okr[2][0].op != "agg":
        ctx.add(rule, "adss#shapes", False, "share / recover Ok payloads are not aggregates", at)
    else:
        Cc, Dd = oks[2][0].args[1 + sC], oks[2][0].args[1 + sD]
        Mm, Rr = okr[2][0].args[1 + iM], okr[2][0].args[1 + iR]
        def kinds(v):
            if v.op != "owf":
                return None
            return [(k, d) for k, d, _ in Q.flat_ops(Q.trace_of(v.args[1]))]
        kc, kd, km, kr = kinds(Cc), kinds(Dd), kinds(Mm), kinds(Rr)
        ok = all(x is not None for x in (kc, kd, km, kr))
        if ok:
            lab = lambda k: Q.consts(Q.leaves(k[0][1])) if k and k[0][0] == "new" else None
            ok_label = lab(kc) == lab(kd) == lab(km) == lab(kr) and lab(kc)
            ok_seq = [x[0] for x in kc] == ["new", "key", "send_enc"] and [x[0] for x in kd] == ["new", "key", "send_enc", "send_enc"] \
                and [x[0] for x in km] == ["new", "key", "recv_enc"] and [x[0] for x in kr] == ["new", "key", "recv_enc", "recv_enc"]
            ctx.add(rule, "adss::Commune::share~recover#cipher-transcript", bool(ok_label) and ok_seq,
                    "ADSS encrypts/decrypts message then coins under one keyed transcript with the same label on both sides; "
                    "found share C=%s D=%s recover M=%s R=%s labels %s/%s" % ([x[0] for x in kc], [x[0] for x in kd],
                    [x[0] for x in km], [x[0] for x in kr], lab(kc), lab(km)), at,
                    sample={"share_D": Q.show_trace(Q.trace_of(Dd.args[1]), 3), "recover_R": Q.show_trace(Q.trace_of(Rr.args[1]), 3)})
            # message before coins on both sides, and the decrypt side feeds C then D
            okorder = ok_seq and Q.params(Q.leaves(kd[2][1])) == {"self.%d" % iM} and Q.params(Q.leaves(kd[3][1])) == {"self.%d" % iR}
            if ok_seq:
                p1 = Q.params(Q.leaves(kr[2][1]))
                p2 = Q.params(Q.leaves(kr[3][1]))
                okorder = okorder and all(p.endswith(".%d" % sC) for p in p1) and all(p.endswith(".%d" % sD) for p in p2) and p1 and p2
            ctx.add(rule, "adss::Commune::share~recover#message-before-coins", bool(okorder),
                    "both sides must process the message ciphertext before the coins ciphertext", at)
        else:
            ctx.add(rule, "adss#owf", False, "C/D/M/R are not cipher outputs: %s %s %s %s" % (S(Cc, 2), S(Dd, 2), S(Mm, 2), S(Rr, 2)), at)



def Q_strip(t):
    """a byte value behind reference / copy wrappers"""
    n = 0
    while is_t(t) and t.op in ("deref", "refv", "conv") and len(t.args) == 1 and n < 8:
        t = t.args[0]
        n += 1
    return t


def payload_framing(ctx, rule):
    """the payload handed to the report cipher is exactly len|measurement, followed by len|aux iff aux is Some - nothing
    before, between or after (shared: C01.R7, C18.R10: the aggregation server's reader walks exactly this layout)"""
    eng, ret, st, fr = ctx.root("sta_rs::Message::generate")
    at = ctx.fn("sta_rs::Message::generate").loc
    cn = Q.calls(eng, "sta_rs::Ciphertext::new")
    if len(cn) != 1:
        ctx.add(rule, "sta_rs::Message::generate#encrypt-call", False, "expected one Ciphertext::new call", at)
    else:
        data = cn[0]["argv"][1]
        parts = Q.split_chain_loops(Q.parts_of(data))
        ctx.extra["payload_parts"] = str(parts)[:600]
        # `once(m).chain(aux.as_ref().map(..)).for_each(store)`: an optional tail - present exactly when the Option is Some
        opt_tail = [p_ for p_ in parts if p_[0] == "opt"]
        opt_view_of_aux = False
        if len(opt_tail) == 1 and parts[-1] is opt_tail[0]:
            E = opt_tail[0][1]

            def _dz(f, v_):
                return f[0].op == "discr" and Q.path_of(f[0].args[0]) == "aux" and f[1:] == ("eq", v_)
            opt_view_of_aux = all((a_[0] == 1 and any(_dz(f, 1) for f in a_[3])) or (a_[0] == 0 and any(_dz(f, 0) for f in a_[3]))
                                  for a_ in E.args[1]) and len(E.args[1]) == 2
            head = [p_ for p_ in parts[:-1]]

            def _norm(seq):
                return [("part", Q_strip(p_[1])) if p_[0] == "part" else p_ for p_ in seq]
            parts = [("alt", [_norm(head), _norm(head + list(opt_tail[0][2]))])]
        def lp_pair(a, b):
            from .c08 import narrowed_header
            return a[0] == "part" and b[0] == "part" and a[1].op == "bytes_of" and a[1].args[1] == 4 and not narrowed_header(a[1]) and \
                Q.contains(a[1], lambda x: x.op == "len" and (x.args[0] is b[1] or Q_strip(x.args[0]) is Q_strip(b[1])))
        ix = fidx(ctx, "sta_rs::MessageGenerator", "x")
        alts = []
        if parts and parts[0][0] == "alt":
            alts = parts[0][1]
        elif parts:
            alts = [parts]
        okm = bool(alts) and all(len(a) >= 2 and lp_pair(a[0], a[1]) and Q.path_of(a[1][1]) == "mg.%d.0" % ix for a in alts)
        ctx.add(rule, "sta_rs::Message::generate#measurement-chunk", okm,
                "the payload must start with len|measurement (4-byte LE length of the same bytes)", cn[0]["at"],
                sample=[[S(p[1], 4) for p in a if p[0] == "part"] for a in alts])
        with_aux = [a for a in alts if len(a) == 4]
        without = [a for a in alts if len(a) == 2]
        oka = len(with_aux) == 1 and len(without) == 1 and lp_pair(with_aux[0][2], with_aux[0][3]) and \
            Q.params(Q.leaves(with_aux[0][3][1])) == {"aux.v1.0.0"}
        ctx.add(rule, "sta_rs::Message::generate#aux-chunk", oka,
                "the payload variants must be exactly {len|m, len|m . len|aux}; found %d variants with part counts %s"
                % (len(alts), [len(a) for a in alts]), cn[0]["at"])
        # the aux chunk is appended iff aux is Some: facts at the appending call = facts at the join + {aux is Some}
        sb = [e for e in Q.calls(eng, "adss::store_bytes")          # in generate itself or in a helper it calls
              if Q.params(Q.leaves(e["argv"][0])) == {"aux.v1.0.0"}]
        if opt_view_of_aux and not sb:
            ctx.add(rule, "sta_rs::Message::generate#aux-iff-some", True,
                    "the aux chunk is the tail of an iteration over a view of `aux` as an Option: written exactly when aux is Some",
                    cn[0]["at"], sample=["optional tail over a view of aux"])
        elif len(sb) == 1:
            f_app = Q.closure(eng, eng.facts_at(sb[0]["frame"], sb[0]["block"]))
            f_join = Q.closure(eng, eng.facts_at(cn[0]["frame"], cn[0]["block"]))
            extra = [f for f in f_app - f_join]
            def is_some(f):
                return f[0].op == "discr" and Q.path_of(f[0].args[0]) == "aux" and f[1:] == ("eq", 1)

            def view_of_some(f):
                # discr(E) == k where E is a two-way view of aux (as_ref / as_deref / map of it): variant k is taken
                # exactly when aux is Some
                t, rel, v = f
                if not (t.op == "discr" and rel == "eq" and t.args[0].op == "enum"):
                    return False
                alts = t.args[0].args[1]
                mine = [a for a in alts if a[0] == v]
                rest = [a for a in alts if a[0] != v]
                return len(mine) == 1 and bool(mine[0][3]) and all(is_some(g) for g in mine[0][3]) and \
                    all(any(g[0].op == "discr" and Q.path_of(g[0].args[0]) == "aux" and g[1:] == ("eq", 0) for g in a[3]) for a in rest)
            only_some = bool(extra) and any(is_some(f) for f in extra) and all(is_some(f) or view_of_some(f) for f in extra)
            ctx.add(rule, "sta_rs::Message::generate#aux-iff-some", only_some,
                    "the aux chunk must be written iff aux is Some; additional/other conditions: %s"
                    % [Q.show_fact(f, 3) for f in extra], sb[0]["at"], sample=[Q.show_fact(f, 3) for f in extra])
        else:
            ctx.add(rule, "sta_rs::Message::generate#aux-store", False, "expected one store_bytes of the aux (found %d)" % len(sb), at)


def payload_cipher_agreement(ctx, rule):
    """Ciphertext::new and Ciphertext::decrypt run the same keyed Strobe transcript (shared: C01.R2, C18.R9)"""
    engn, retn, stn, frn = ctx.root("sta_rs::Ciphertext::new")
    engd, retd, std_, frd = ctx.root("sta_rs::Ciphertext::decrypt")
    at = ctx.fn("sta_rs::Ciphertext::decrypt").loc
    ib = fidx(ctx, "sta_rs::Ciphertext", "bytes")
    enc = retn.args[1 + ib] if retn is not None and retn.op == "agg" else None
    dec = retd
    def sig(v):
        """operation-kind signature of every cipher output contained in v, send/recv unified"""
        out = []
        for o in Q.find_all(v, lambda t: t.op == "owf" and t.args[0] in ("send_enc", "recv_enc")):
            ops = Q.flat_ops(Q.trace_of(o.args[1]))
            out.append(tuple((k.replace("send_", "x_").replace("recv_", "x_"), rep) for k, d, rep in ops))
        return sorted(set(out))
    s_e, s_d = sig(enc) if enc is not None else [], sig(dec) if dec is not None else []
    ctx.add(rule, "sta_rs::Ciphertext::new~decrypt#same-operation-sequence", bool(s_e) and s_e == s_d,
            "encrypt and decrypt must run the same Strobe operation sequence (send_enc vs recv_enc): %s vs %s" % (s_e, s_d), at,
            sample={"new": s_e, "decrypt": s_d})
    def dirs(v):
        return sorted({o.args[0] for o in Q.find_all(v, lambda t: t.op == "owf" and t.args[0] in ("send_enc", "recv_enc"))})
    d_e, d_d = dirs(enc) if enc is not None else [], dirs(dec) if dec is not None else []
    ctx.add(rule, "sta_rs::Ciphertext::new~decrypt#opposite-directions", len(d_e) == 1 and len(d_d) == 1 and d_e != d_d,
            "the Strobe duplex absorbs the plaintext in one direction and the ciphertext in the other: encryption by send_enc "
            "needs decryption by recv_enc (with the same call on both sides the states diverge after the first rate block); "
            "found %s vs %s" % (d_e, d_d), at, sample={"new": d_e, "decrypt": d_d})

    def keyed(v):
        ks = []
        for o in Q.find_all(v, lambda t: t.op == "owf" and t.args[0] in ("send_enc", "recv_enc")):
            for k, d, _ in Q.flat_ops(Q.trace_of(o.args[1])):
                if k in ("new", "key"):
                    ks.append((k, d))
        return ks
    ke, kd = keyed(enc) if enc is not None else [], keyed(dec) if dec is not None else []
    same_key = bool(ke) and set(ke) == set(kd) and any(k == "key" and Q.params(Q.leaves(d)) == {"enc_key_buf"} for k, d in ke) and \
        any(k == "new" and Q.params(Q.leaves(d)) == {"label"} for k, d in ke)
    ctx.add(rule, "sta_rs::Ciphertext#same-label-and-key", same_key,
            "both directions must start from Strobe::new(label) keyed with the given key", at)
    okd = enc is not None and dec is not None and "data" in Q.params(Q.leaves(enc)) and ("self.%d" % ib) in Q.params(Q.leaves(dec))
    ctx.add(rule, "sta_rs::Ciphertext#data", okd, "encrypt must process `data`, decrypt the stored bytes", at)
    lens_ok = enc is not None and dec is not None
    ctx.add(rule, "sta_rs::Ciphertext#output-is-cipher-output", lens_ok and Q.contains(enc, lambda t: t.op == "owf") and Q.contains(dec, lambda t: t.op == "owf"),
            "both directions must return Strobe cipher output", at)



def complete_share_flow(ctx, rule):
    """share_recover -> adss::recover -> Sharks::recover: the callee's share collection is a complete, element-for-element
    image of the caller's (no take / skip / filter / sub-slice before x-deduplication), and Sharks::recover's loop
    traverses its whole argument.  Necessary for `any selection containing t distinct shares, with surplus or repeated
    reports present`: a truncation before deduplication lets repeats use up the slots."""
    for root, callee, argi, pname in (("sta_rs::share_recover", "adss::recover", 0, "shares"),
                                      ("adss::recover", "star_sharks::Sharks::recover", 1, "shares")):
        eng, ret, st, fr = ctx.root(root)
        at = ctx.fn(root).loc
        cs = [e for e in Q.calls(eng, callee) if e["home"] == fr.key]
        ok = len(cs) == 1
        det = "%d call(s) of %s" % (len(cs), callee)
        if ok:
            arg = cs[0]["argv"][argi]
            base = Q.whole_of(arg, eng)
            ok = base is not None and Q.path_of(base) == pname
            det = "argument %s traverses %s" % (S(arg, 5), S(base, 2) if base is not None else "only part of its source")
            at = cs[0]["at"]
        ctx.add(rule, "%s>%s#passes-every-share" % (root, callee), ok,
                "every share supplied to %s must be handed on to %s (%s)" % (root, callee, det), at, sample=det)
    root = "star_sharks::Sharks::recover"
    eng, ret, st, fr = ctx.root(root)
    nx = [e for e in Q.calls(eng, "Iterator::next") if e["home"] == fr.key]
    ok = False
    det = "no loop over the shares"
    for e in nx:
        it = e["argv"][0]
        base = Q.whole_of(it, eng)
        det = "loop iterator %s" % S(it, 4)
        if base is not None and Q.path_of(base) == "shares":
            ok = True
    ctx.add(rule, root + "#loop-visits-every-share", ok and len(nx) == 1,
            "the deduplication loop must visit every supplied share (%s)" % det, nx[0]["at"] if nx else ctx.fn(root).loc, sample=det)


def recover_guards(ctx, rule):
    """shared by C01.R4 / C02.R4 / C06.R5: guards of star_sharks::Sharks::recover"""
    root = "star_sharks::Sharks::recover"
    eng, ret, st, fr = ctx.root(root)
    fn = ctx.fn(root)
    at = fn.loc
    SHR = "star_sharks::share_ff::Share"
    ix, iy = fidx(ctx, SHR, "x"), fidx(ctx, SHR, "y")
    pushes = [e for e in Q.calls(eng, "::push", in_fn=root)]
    inserts = [e for e in Q.calls(eng, "BTreeSet::<T, A>::insert", in_fn=root)]
    interp = Q.calls(eng, "star_sharks::share_ff::interpolate", in_fn=root)
    if len(pushes) != 1 or len(interp) != 1:
        ctx.add(rule, root + "#shape", False,
                "expected one push into the interpolation vector and one interpolate call (found %d / %d)" % (len(pushes), len(interp)), at)
        return
    push = pushes[0]
    pf = Q.closure(eng, eng.facts_at(push["frame"], push["block"]))
    # (a) push guarded by successful insertion of this share's x encoding
    guard = [f for f in pf if f[0].op == "set_inserted" and f[1:] == ("eq", 1)]
    el = push["argv"][1]
    ok_a = False
    detail = "no dominating `set.insert(..) returned true` fact"
    if guard:
        key = guard[0][0].args[1]
        kp = Q.params(Q.leaves(key))
        xpath = (Q.path_of(el) or "?") + ".%d" % ix
        ok_a = kp == {xpath}
        detail = "inserted key depends on %s, pushed share is %s" % (sorted(kp), Q.path_of(el))
    ctx.add(rule, root + "#push-iff-new-x", ok_a,
            "a share may enter the interpolation vector only when the insertion of its own x encoding into the "
            "distinctness set succeeded (%s)" % detail, push["at"], sample=detail)
    # (a') the key is an injective encoding of x: the whole to_repr byte string (no truncation / partial decode)
    if guard:
        key = guard[0][0].args[1]
        k = key
        while k.op in ("refv", "conv", "deref", "collected", "as_array") or (k.op == "copied" and True) or \
                (k.op == "field" and k.args[1] == 0 and k.args[0].op == "fp_to_repr"):     # FpRepr(bytes).0: the same 24 bytes
            k = k.args[0]
        whole = k.op == "fp_to_repr"
        ctx.add(rule, root + "#key-is-x-encoding", whole,
                "the distinctness key must be the complete canonical encoding of x (a truncated or re-decoded key lets distinct points collide); found %s" % S(key, 4), push["at"])
    # (b) equal-length guard dominates the push
    eqlen = [f for f in pf if f[0].op == "eq" and f[1:] == ("eq", 1) and
             Q.contains(f[0], lambda t: t.op == "len" and (Q.path_of(t.args[0]) or "").endswith(".%d" % iy))]
    ctx.add(rule, root + "#equal-length-guard", bool(eqlen),
            "every stored share must have passed the `same number of y values as the first share` comparison", push["at"])
    # (c) refusal iff set empty or |set| < threshold  ; (d) interpolate gets values[0..threshold]
    it = interp[0]
    f_i = Q.closure(eng, eng.facts_at(it["frame"], it["block"]))
    setterm = guard[0][0].args[0] if guard else None
    from .. import lin
    from ..terms import mk
    L = lin.Ctx()
    for f in f_i:
        L.add_fact(f)
    # the slice bound handed to interpolate is the threshold term
    sl0 = it["argv"][0]
    thr = None
    if sl0.op == "slice":
        # the threshold term: the (cast of the) Sharks parameter occurring in the slice bounds
        cands = Q.find_all(sl0.args[2], lambda t: Q.params(Q.leaves(t)) == {"self.0"} and t.op in ("cast", "field", "deref")) + \
            Q.find_all(sl0.args[1], lambda t: Q.params(Q.leaves(t)) == {"self.0"} and t.op in ("cast", "field", "deref"))
        cands = [c for c in cands if c.op == "cast"] or cands
        thr = cands[0] if cands else None
    ok_c = False
    ne0 = False
    d = "no distinctness set / threshold term found"
    if setterm is not None and thr is not None:
        # |stored vector| counts the same thing as |set| when the vector is pushed to exactly on the iterations whose
        # insertion succeeded (INV-PAIRED, exact form, of the PANIC engine)
        vec = push["argv"][0]
        paired = False
        if vec.op == "phi" and setterm.op == "phi":
            from ..panic import _paired
            try:
                paired = bool(_paired(eng, vec, setterm, True))
            except Exception:
                paired = False
        cnts = [t for f in f_i for t in Q.find_all(f[0], lambda x: x.op == "len" and (_same_coll(x.args[0], setterm) or
                                                                                 (paired and _same_coll(x.args[0], vec))))]
        thr_ok = Q.params(Q.leaves(thr)) == {"self.0"} and not Q.contains(thr, lambda t: t.op == "cast" and t.args[2] in ("u8", "u16"))
        for c in cnts:
            ge = lin.entails(L, L.lin(thr).add(L.lin(c), -1))                                   # thr <= |set|
            tight = not lin.infeasible(L.constraints() + [L.lin(c).add(L.lin(thr), -1), L.lin(thr).add(L.lin(c), -1)])
            if ge and tight and thr_ok:
                ok_c = True
            if lin.entails(L, lin.Lin(1).add(L.lin(c), -1)):                                     # |set| >= 1
                ne0 = True
            d = "count term %s, threshold term %s: threshold <= count entailed %s, count == threshold admitted %s" % (S(c, 3), S(thr, 3), ge, tight)
    ctx.add(rule, root + "#count-guard", ok_c,
            "interpolation must be reached exactly when |distinct x set| >= threshold: %s" % d, it["at"], sample=d)
    ctx.add(rule, root + "#nonempty-guard", bool(ne0),
            "interpolation must be reached only when the distinct set is non-empty", it["at"])
    # refusal is exactly the complement: the Err("Not enough") site is reached from the same two tests only
    errv = Q.variant(ret, 1)
    sl = it["argv"][0]
    ok_d = False
    if sl.op == "slice" and thr is not None and _is_vec_of(sl.args[0], push["argv"][0]):
        width = L.lin(sl.args[2]).add(L.lin(sl.args[1]), -1).add(L.lin(thr), -1)
        ok_d = width.is_const() and width.c == 0
    ctx.add(rule, root + "#exactly-threshold-stored-shares", ok_d,
            "interpolate must receive a window of exactly `threshold` stored (distinct) shares; found %s" % S(sl, 4), it["at"],
            sample=S(sl, 4))
    # (e) the Ok result is interpolate's result
    okv = ok_variant(ret, 0)
    ctx.add(rule, root + "#ok-is-interpolation", okv is not None and it["result"] is not None and
            Q.variant(it["result"], 0) is not None and okv[2] == Q.variant(it["result"], 0)[2],
            "the recovered secret must be the interpolation result", it["at"])


def _same_coll(a, b):
    """a and b denote the same accumulating collection (same loop phi or same term)"""
    if a is b:
        return True
    ka = a.args[0] if a.op == "phi" else None
    kb = b.args[0] if b.op == "phi" else None
    if ka and kb:
        # same local of the same frame at different join points
        return ka[0] == kb[0] and ka[-1] == kb[-1]
    return False


def _is_vec_of(a, b):
    return _same_coll(a, b)
