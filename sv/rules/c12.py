"""C12 - PPOPRF output depends only on (server key, tag, input), never on the blinding."""
from .. import query as Q
from .common import S, fidx, ok_variant

EXPLANATION = (
    "Decided statically: (R1) Client::blind draws its blinding scalar from the OS generator inside the call (a fresh "
    "random atom per request), the blinded point is that scalar times the hash-to-group of the input, the same "
    "scalar is returned, and Client::unblind multiplies by Scalar::invert of the scalar argument; (R2) the "
    "exponent used by Server::eval is invert(oprf_key + from_bytes_mod_order(PRF output for the tag)) - it depends "
    "(by data or control flow) on the server key material and on the tag byte and on nothing random - and the "
    "evaluated point is exponent * decompressed request point; (R3) Client::finalize hashes input, tag byte and "
    "the unblinded point, in this order, and outputs the first 32 bytes of the digest; (R4) the per-tag PRF value is derived from the covering tree node over exactly the bits after its prefix, both in eval and for the nodes puncture re-creates (C10.R4 re-run), so it does not change with the puncture history; (R5) key-state import replaces all three key components unconditionally with the exported ones (C11.R4 re-run), so synchronised replicas answer identically.  NOT decided: that "
    "unblinding cancels blinding (group algebra), unlinkability (cryptographic).")
ASSUMPTIONS = ["curve25519-dalek scalar/point arithmetic is total and correct; OsRng is the OS generator"]
TRUSTED = []

P = "ppoprf::ppoprf::"


def find(t, pred):
    return Q.find_all(t, pred)


def run(ctx):
    # ---- R1 blinding ------------------------------------------------------------------------------------------
    root = P + "Client::blind"
    eng, ret, st, fr = ctx.root(root)
    at = ctx.fn(root).loc
    ok = ret is not None and ret.op == "agg" and len(ret.args) == 3
    if not ok:
        ctx.add("C12.R1", root + "#shape", False, "blind must return (point, scalar); found %s" % S(ret, 3), at)
    else:
        pt, sc = ret.args[1], ret.args[2]
        rs = Q.rngs(Q.leaves(sc))
        fresh = len(rs) == 1 and all(r[1].endswith("OsRng") and r[2].startswith(fr.key + "/") for r in rs)
        ctx.add("C12.R1", root + "#fresh-os-scalar", fresh and not Q.params(Q.leaves(sc)),
                "the blinding scalar must be one fresh OS-generator draw made inside blind() and depend on nothing else; "
                "random atoms %s, inputs %s" % (sorted(map(str, rs)), sorted(Q.params(Q.leaves(sc)))), at,
                sample=sorted(map(str, rs)))
        draws = find(sc, lambda t: t.op == "scalar_random")
        muls = find(pt, lambda t: t.op == "alg_mul")
        okm = False
        for m in muls:
            a, b = m.args[0], m.args[1]
            for x, y in ((a, b), (b, a)):
                if draws and x is draws[0] and Q.params(Q.leaves(y)) == {"input"} and \
                        Q.contains(y, lambda t: t.op == "owf") and Q.contains(y, lambda t: t.op == "from_uniform_bytes"):
                    okm = True
        ctx.add("C12.R1", root + "#blinded-point", okm,
                "the request point must be (the returned scalar) * hash_to_group(input); found %s" % S(pt, 5), at, sample=S(pt, 4))
    root = P + "Client::unblind"
    eng, ret, st, fr = ctx.root(root)
    at = ctx.fn(root).loc
    muls = find(ret, lambda t: t.op == "alg_mul") if ret is not None else []
    oku = False
    for m in muls:
        for x, y in ((m.args[0], m.args[1]), (m.args[1], m.args[0])):
            if x.op == "scalar_invert" and Q.params(Q.leaves(x)) == {"r.0"} and Q.params(Q.leaves(y)) == {"p.0"}:
                oku = True
    ctx.add("C12.R1", root + "#inverse-of-blinding", oku,
            "unblind must multiply the evaluated point by the inverse of the blinding scalar; found %s" % S(ret, 5), at, sample=S(ret, 5))
    ctx.floor("C12.R1", 3)

    # ---- R2 exponent -------------------------------------------------------------------------------------------
    root = P + "Server::eval"
    eng, ret, st, fr = ctx.root(root)
    at = ctx.fn(root).loc
    okv = ok_variant(ret, 0)
    SRV = "ppoprf::ppoprf::Server"
    ik, ipp = fidx(ctx, SRV, "oprf_key"), fidx(ctx, SRV, "pprf")
    if okv is None:
        ctx.add("C12.R2", root + "#ok", False, "Server::eval has no Ok", at)
    else:
        ev = okv[2][0]
        out = ev.args[1 + fidx(ctx, "ppoprf::ppoprf::Evaluation", "output")]
        muls = find(out, lambda t: t.op == "alg_mul")
        shape = False
        tagdep = set()
        for m in muls:
            for x, y in ((m.args[0], m.args[1]), (m.args[1], m.args[0])):
                if x.op == "scalar_invert" and x.args[0].op == "alg_add" and Q.params(Q.leaves(y)) == {"p.0"}:
                    a, b = x.args[0].args
                    for k_, t_ in ((a, b), (b, a)):
                        if Q.path_of(k_) == "self.%d" % ik and t_.op == "from_bytes_mod_order":
                            shape = True
                            tagdep = Q.params(Q.leaves_cd(eng, t_))
        ctx.add("C12.R2", root + "#exponent-shape", shape,
                "the evaluation must be invert(oprf_key + scalar(PRF(tag))) * request point; found %s" % S(out, 6), at, sample=S(out, 6))
        okt = "md" in tagdep and any(p.startswith("self.%d" % ipp) for p in tagdep) and \
            all(p == "md" or p.startswith("self.%d" % ipp) for p in tagdep)
        ctx.add("C12.R2", root + "#tag-in-exponent", okt,
                "the per-tag scalar must depend on the tag byte and the puncturable key and nothing else; depends on %s" % sorted(tagdep), at,
                sample=sorted(tagdep))
        rn = Q.rngs(Q.leaves_cd(eng, out))
        ctx.add("C12.R2", root + "#no-randomness-in-output", not rn,
                "the evaluation output must not depend on any random draw; found %s" % sorted(map(str, rn)), at)
        # the PRF is evaluated on exactly the tag byte
        pe = [e for e in Q.calls(eng, "PPRF>::eval")]
        okp = len(pe) == 1 and Q.params(Q.leaves(pe[0]["argv"][1])) == {"md"} and Q.path_of(pe[0]["argv"][0]) == "self.%d" % ipp
        ctx.add("C12.R2", root + "#prf-on-tag", okp, "the puncturable PRF must be evaluated on [md] with the server's own key", at)
    ctx.floor("C12.R2", 4)

    # ---- R3 finalisation ---------------------------------------------------------------------------------------
    root = P + "Client::finalize"
    eng, ret, st, fr = ctx.root(root)
    at = ctx.fn(root).loc
    out = st.get(("param", "out")) if st else None
    owfs = find(out, lambda t: t.op == "owf") if out is not None else []
    okf = False
    parts_s = None
    if owfs:
        tr = Q.flat_ops(Q.trace_of(owfs[0].args[1]))
        keys = [d for k, d, _ in tr if k == "key"]
        if len(keys) == 1:
            parts = Q.parts_of(keys[0])
            seq = []
            for p in parts:
                if p[0] in ("part", "byte"):
                    seq.append(sorted(Q.params(Q.leaves(p[1]))))
            parts_s = seq
            okf = seq == [["input"], ["md"], ["unblinded.0"]]
    ctx.add("C12.R3", root + "#hash-input", okf,
            "the finalisation hash must absorb input, tag byte and unblinded point (all three, in this order); found %s" % parts_s, at,
            sample=parts_s)
    sl = find(out, lambda t: t.op == "slice") if out is not None else []
    def is32(t):
        """the bound is 32: literally, or a length that every path reaching the copy has tested to be 32"""
        if t.op == "int":
            return t.args[0] == 32
        from .. import lin
        cps = [e for e in Q.calls(eng, "copy_from_slice") if Q.path_of(e["argv"][0]) == "out"]
        if len(cps) != 1:
            return False
        L = lin.Ctx()
        for f in Q.closure(eng, eng.facts_at(cps[0]["frame"], cps[0]["block"])):
            L.add_fact(f)
        d = L.lin(t).add(lin.Lin(32), -1)
        return lin.entails(L, d) and lin.entails(L, d.scale(-1))
    oks = any(s.args[0].op == "owf" and s.args[1].op == "int" and s.args[1].args[0] == 0 and is32(s.args[2]) for s in sl)
    ctx.add("C12.R3", root + "#first-32-bytes", oks, "the output must be the first 32 bytes of the digest; found %s" % S(out, 4), at)
    ctx.floor("C12.R3", 2)
    # ---- R4 = C10.R4: PRF values come from the covering node over the bits after its prefix, for eval and for the
    # nodes re-created by puncture (otherwise outputs for live tags change with the puncture history)
    from .c10 import descent_rules
    descent_rules(ctx, "C12.R4")
    ctx.floor("C12.R4", 5)
    # ---- R5 = C11.R4: replicas that share key state (feature key-sync) hold exactly the exporter's keys, so they
    # compute the same function of (tag, input)
    from .c11 import export_import
    export_import(ctx, "C12.R5")
    ctx.floor("C12.R5", 6)
