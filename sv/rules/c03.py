"""C03 - associated data stays confidential below threshold (no keystream reuse)."""
from .. import query as Q
from ..terms import PHI, is_t
from .common import S, fidx, ok_variant
from .c02 import ONEWAY_WIRE, poly_rules, raw_nodes, secrets_of, wire_fields

EXPLANATION = (
    "Decided statically: (R1) the associated data reaches no wire field of a report in the clear - its only path to "
    "the wire is as data of the Strobe send_enc of the payload cipher, which covers the whole payload buffer; "
    "(R2) the payload key (and the ADSS key that protects its seed) is not contained in the clear in any wire "
    "field, no Strobe output carried in the clear is computed by the same transcript (operation for operation over "
    "the same data) as a key, and no cipher on the wire is keyed by a value that is itself carried in the report; (R3) keystream "
    "freshness: the transcript state at the payload send_enc must depend on something that differs between two "
    "clients reporting the same measurement (an RNG draw or the share's evaluation point) - otherwise the "
    "keystream is a deterministic function of (measurement, epoch, threshold) and c1 xor c2 = p1 xor p2 for every "
    "input.  R3 is VIOLATED by the pinned tree (known finding, DESIGN.md section 5 #8) and is reported as such; R1 and R2 "
    "stay armed; (R4) the key seed carried in the share is protected by a sharing polynomial with one fresh coefficient per degree (C02.R3 re-run).  NOT decided: semantic security of Strobe.")
ASSUMPTIONS = ["Strobe send_enc is a stream cipher whose keystream is determined by the transcript state (strobe-rs)"]
TRUSTED = []


def run(ctx):
    root = "sta_rs::Message::generate"
    eng, ret, st, fr = ctx.root(root)
    at = ctx.fn(root).loc
    okv = ok_variant(ret, 0)
    if okv is None or okv[2][0].op != "agg":
        ctx.add("C03.R1", root + "#ok", False, "generate has no Ok(Message) aggregate", at)
        return
    msg = okv[2][0]
    wf = wire_fields(ctx, msg)
    AUX = "aux.v1.0.0"
    # ---- R1: aux never in the clear; only through the payload send_enc ---------------------------------
    for name, v in sorted(wf.items()):
        rp = Q.params(Q.atoms(v, stop_ops=ONEWAY_WIRE))
        ctx.add("C03.R1", root + "#aux-clear:" + name, AUX not in rp,
                "wire field `%s` contains the associated data in the clear" % name, at,
                sample={"field": name, "clear_inputs": sorted(rp)})
    ct = wf["ciphertext"]
    ib = fidx(ctx, "sta_rs::Ciphertext", "bytes")
    cb = ct.args[1 + ib] if ct.op == "agg" else ct
    whole = cb.op == "owf" and cb.args[0] == "send_enc"
    ci = Q.calls(eng, "sta_rs::Ciphertext::new", in_fn=root)
    data = ci[0]["argv"][1] if ci else None
    covers = False
    if whole and data is not None:
        ops = Q.flat_ops(Q.trace_of(cb.args[1]))
        encd = [d for k, d, _ in ops if k == "send_enc"]
        covers = len(encd) == 1 and encd[0] is data
    ctx.add("C03.R1", root + "#ciphertext-is-send_enc-of-whole-payload", whole and covers,
            "the ciphertext bytes must be the Strobe send_enc output over the entire payload buffer; found %s" % S(cb, 3), at,
            sample=S(cb, 2))
    others = [n for n, v in wf.items() if n != "ciphertext" and AUX in Q.params(Q.leaves(v))]
    ctx.add("C03.R1", root + "#aux-only-in-ciphertext", not others,
            "associated data influences wire fields other than the ciphertext: %s" % others, at)
    ctx.floor("C03.R1", 9)

    # ---- R2: keys not on the wire ----------------------------------------------------------------------------
    sec = secrets_of(ctx, eng)
    keyterms = {n: t for n, t in sec.items() if n in ("payload key", "ADSS key K", "key seed r0 (ADSS message)")}
    for name, v in sorted(wf.items()):
        nodes = raw_nodes(v, ONEWAY_WIRE)
        leaked = [n for n, t in keyterms.items() if t.id in nodes]
        ctx.add("C03.R2", root + "#key-clear:" + name, not leaked,
                "wire field `%s` carries %s in the clear: the payload can be decrypted from the report alone" % (name, leaked), at)
    # a Strobe output carried in the clear must not be computed by the transcript that computes a key (the same
    # operations over the same data, wherever in the code it is recomputed): it would BE the key
    def owf_roots(t):
        """(owf term, constant indices applied on the way): element k of a loop-built vector is a different value for
        each k although all elements share one symbolic body"""
        out, stack, seen = [], [(t, ())], set()
        while stack:
            x, ix = stack.pop()
            if isinstance(x, (tuple, frozenset, list)):
                stack.extend((y, ix) for y in x)
                continue
            if not is_t(x) or (x.id, ix) in seen:
                continue
            seen.add((x.id, ix))
            if x.op == "owf":
                out.append((x, ix))
                continue
            if x.op == "fold" or (x.op == "phi" and Q.is_loop_acc(x)):
                continue
            if x.op == "phi":
                stack.extend((y, ix) for y in (PHI.get(x.args[0]) or {}).values())
                continue
            if x.op == "index" and is_t(x.args[1]) and x.args[1].op == "int":
                stack.append((x.args[0], ix + (x.args[1].args[0],)))
                continue
            stack.extend((y, ix) for y in Q.raw_children(x))
        return out

    def tr_key(oi):
        o, ix = oi
        return tuple((k, d.id if is_t(d) else repr(d)) for k, d, _ in Q.flat_ops(Q.trace_of(o.args[1]))) + (o.args[0], ix)
    ktr = {}
    for n, t in keyterms.items():
        for o in owf_roots(t):
            ktr.setdefault(tr_key(o), n)
    same = []
    nchk = 0
    for name, v in sorted(wf.items()):
        for o in owf_roots(v):
            nchk += 1
            if tr_key(o) in ktr:
                same.append((name, ktr[tr_key(o)], Q.show_trace(Q.trace_of(o[0].args[1]), 2)[:160]))
    ctx.add("C03.R2", root + "#no-wire-output-of-a-key-transcript", not same and nchk > 0,
            "a value carried in the clear is the output of the very Strobe transcript that yields a key (field, key, transcript): %s" % same, at,
            sample={"wire_strobe_outputs_compared": nchk, "key_transcripts": len(ktr)})
    # no cipher on the wire is keyed by something raw on the wire
    allraw = set()
    for v in wf.values():
        allraw |= raw_nodes(v, ONEWAY_WIRE)
    bad = []
    for name, v in wf.items():
        for o in Q.find_all(v, lambda t: t.op == "owf" and t.args[0] == "send_enc"):
            for k, d, _ in Q.flat_ops(Q.trace_of(o.args[1])):
                if k == "key" and d.id in allraw:
                    bad.append((name, S(d, 3)))
    ctx.add("C03.R2", root + "#cipher-keys-not-on-wire", not bad,
            "a cipher whose output is on the wire is keyed by a value that is itself carried in the report: %s" % bad, at)
    ctx.floor("C03.R2", 9)

    # ---- R3: keystream freshness (known finding on the pinned tree) ------------------------------------------
    if whole:
        lv = Q.leaves(cb.args[1].args[0]) if cb.args[1].op == "sop" else Q.leaves(cb.args[1])
        # state before the send_enc: everything absorbed so far
        fresh = Q.rngs(lv)
        ps = Q.params(lv)
        ctx.add("C03.R3", "sta_rs::Message::generate>sta_rs::Ciphertext::new#send_enc", bool(fresh),
                "keystream reuse: the cipher state at send_enc depends only on %s (no per-report nonce / random atom), so two "
                "reports of one measurement are encrypted under the same keystream: c1^c2 == p1^p2" % sorted(ps),
                ci[0]["at"] if ci else at, sample={"state_depends_on": sorted(ps), "random_atoms": len(fresh)})
    ctx.floor("C03.R3", 1)
    # ---- R4: the key seed in the share is protected by a polynomial with fresh coefficients (= C02.R3) -------
    poly_rules(ctx, "C03.R4")
