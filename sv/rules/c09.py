"""C09 - data from other parties never crashes the receiver."""
from .. import panic
from .. import query as Q
from .common import S

EXPLANATION = (
    "Proof over the MIR model: from each of the 15 receiving entry points the resolved call graph is followed through "
    "every workspace body (closures included) and every potential failure site is inventoried: MIR Assert terminators "
    "(overflow, bounds, division), diverging calls (panic_fmt, begin_panic, unwrap_failed ...), calls of partial "
    "external functions with their precondition (slice indexing by any range kind, copy_from_slice, unwrap / expect "
    "on Option / Result / CtOption, Vec::remove, split_at, bitvec set/split_at), unmodelled #[track_caller] callees "
    "(fail closed), allocation sizes and Strobe `more` flags.  A site is in scope when its failure condition "
    "depends (by data or control flow) on a parameter that carries data from another party.  Every in-scope site "
    "is an obligation and must be discharged: the branch facts on dominating edges - closed over inlined callees "
    "and over the per-variant facts of returned Option/Result values - together with the negated precondition "
    "must be infeasible by Fourier-Motzkin elimination over linear forms of lengths, decoded headers and loop "
    "elements (with integer type ranges), or one of two named structural rules must apply (IDIOM-NEQ for the "
    "inverted difference behind a `!=` filter, INV-UNIFORM for the equal-length invariant of the interpolation "
    "vector, checked at its single write site).  obligations == discharged is required.  NOT decided: termination "
    "and time, stack depth, allocation failure, panics inside external crates beyond their modelled preconditions, "
    "drop glue.")
ASSUMPTIONS = [
    "external crates do not panic beyond the preconditions modelled in sv/models.py (strobe-rs 0.10 with more=false, "
    "curve25519-dalek decompress returns Option, bincode/serde return Err, base64 decode returns Result)",
    "allocation failure and stack exhaustion are out of scope", "drop glue (zeroize) does not panic",
    "usize is 64 bits in the quick tier; the thorough tier repeats the discharge with 32 bits"]
TRUSTED = ["strobe-rs 0.10.0, curve25519-dalek 4, bincode 1.3, base64 0.22, bitvec 1, ff 0.13 (modelled, not analysed)"]
CLAIM = {"category": "proof",
         "technique": "static analysis: panic-site inventory over resolved MIR call graph x input taint x discharge by dominating-guard facts with Fourier-Motzkin entailment"}

# entry point -> parameters carrying data from another party
ENTRIES = [
    ("adss::load_u32", {"bytes"}, "A"),
    ("adss::load_bytes", {"bytes"}, "A"),
    ("adss::AccessStructure::from_bytes", {"bytes"}, "A"),
    ("adss::Share::from_bytes", {"bytes"}, "A"),
    ("sta_rs::Share::from_bytes", {"bytes"}, "A"),
    ("sta_rs::Message::from_bytes", {"bytes"}, "A"),
    ("star_sharks::<share_ff::Share as std::convert::TryFrom<&[u8]>>::try_from", {"s"}, "A"),
    ("star_sharks::Sharks::recover", {"shares"}, "A"),
    ("adss::recover", {"shares"}, "A"),
    ("sta_rs::share_recover", {"shares"}, "A"),
    ("ppoprf::ppoprf::ServerPublicKey::load_from_bincode", {"data"}, "A"),
    ("ppoprf::ppoprf::ProofDLEQ::load_from_bincode", {"data"}, "A"),
    ("ppoprf::ppoprf::Server::eval", {"p"}, "A"),
    ("ppoprf::ppoprf::Client::verify", {"public_key", "input", "eval"}, "A"),
    ("star_wasm::group_shares", {"serialized_shares", "epoch"}, "A"),
]


def run_entries(ctx, rule, entries, usize_bits=64, tag=""):
    total = dis = 0
    out_scope = []
    samples = []
    for root, untrusted, cfg in entries:
        eng, ret, st, fr = ctx.root(root, cfg, usize_bits=usize_bits)
        obs = panic.collect(eng, root)
        n_in = 0
        for o in obs:
            if not panic.in_scope(o, untrusted, eng):
                out_scope.append("%s [depends on %s]" % (o.key, sorted(o.scope_deps)[:3]))
                continue
            n_in += 1
            total += 1
            ok = panic.discharge(eng, o, usize_bits)
            if ok:
                dis += 1
                if len(samples) < 30 and o.kind != "pre:len_eq":
                    samples.append({"site": o.key + tag, "where": o.at, "obligation": o.desc, "discharged_by": o.why})
            ctx.add(rule, o.key + tag, ok,
                    "input-dependent failure site not discharged: %s in %s - %s" % (o.desc, o.fn, o.why), "%s (%s)" % (o.at, o.fn),
                    sample=None, nontrivial=True)
        # engine notes that would make the inventory incomplete fail closed
        for n in eng.unsupported:
            ctx.add(rule, "%s#engine:%s%s" % (root, n[:60], tag), False, "analysis incomplete for %s: %s" % (root, n), ctx.fn(root, cfg).loc)
        ctx.add(rule + ".ENTRY", root + tag, True, "", ctx.fn(root, cfg).loc,
                sample={"entry": root, "untrusted": sorted(untrusted), "sites": len(obs), "in_scope": n_in}, nontrivial=True)
    ctx.obligations += total
    ctx.discharged += dis
    ctx.extra.setdefault("out_of_scope_sites", [])
    ctx.extra["out_of_scope_sites"] = (ctx.extra["out_of_scope_sites"] + out_scope)[:60]
    ctx.extra.setdefault("discharged_samples", [])
    ctx.extra["discharged_samples"] = (ctx.extra["discharged_samples"] + samples)[:40]
    return total, dis


def run(ctx):
    total, dis = run_entries(ctx, "C09.P", ENTRIES, 64)
    ctx.floor("C09.P.ENTRY", 15)
    ctx.floor("C09.P", 60)
    if ctx.tier == "thorough":
        run_entries(ctx, "C09.P32", ENTRIES, 32, tag="@usize32")
        ext = [("ppoprf::ppoprf::ServerPublicKey::load_from_bincode", {"data"}, "B"),
               ("ppoprf::ppoprf::ProofDLEQ::load_from_bincode", {"data"}, "B"),
               ("ppoprf::ppoprf::Server::eval", {"p"}, "B"),
               ("ppoprf::ppoprf::Client::verify", {"public_key", "input", "eval"}, "B"),
               ("star_sharks::<share_ff::Share as std::convert::TryFrom<&[u8]>>::try_from", {"s"}, "C"),
               ("star_sharks::Sharks::recover", {"shares"}, "C")]
        run_entries(ctx, "C09.PB", ext, 64, tag="@cfgBC")
