"""C09 - data from other parties never crashes the receiver."""
import os

from .. import panic
from .. import query as Q
from .common import S

EXPLANATION = (
    "Proof over the MIR model: from each of the 17 receiving entry points the resolved call graph is followed through "
    "every workspace body (closures included) and every potential failure site is inventoried: MIR Assert terminators "
    "(overflow, bounds, division), diverging calls (panic_fmt, begin_panic, unwrap_failed ...), calls of partial "
    "external functions with their precondition (slice indexing by any range kind, copy_from_slice, unwrap / expect "
    "on Option / Result / CtOption, Vec::remove, split_at, bitvec set/split_at), unmodelled #[track_caller] callees "
    "(fail closed), allocation sizes and Strobe `more` flags.  A site is in scope when its failure condition "
    "depends (by data or control flow) on a parameter that carries data from another party.  Every in-scope site "
    "is an obligation and must be discharged: the branch facts on dominating edges - closed over inlined callees "
    "and over the per-variant facts of returned Option/Result values - together with the negated precondition "
    "must be infeasible by Fourier-Motzkin elimination over linear forms of lengths, decoded headers and loop "
    "elements (with integer type ranges), or one of the named structural rules must apply (IDIOM-NEQ for the "
    "inverted difference behind a `!=` filter, INV-UNIFORM for the equal-length invariant of the interpolation "
    "vector, checked at its single write site, INV-PAIRED / INV-COUNT / INV-ALLOC for vector-versus-set sizes, "
    "vectors filled by completed loops and allocation bounds).  Sites inside debug_assert! expansions are attempted "
    "like any other but, when unproven, only listed in the evidence (they do not exist in release builds).  obligations == discharged is required; a site listed in KNOWN_FINDINGS.txt (currently one: Client::unblind) is a recorded violation and is reported separately, not counted as an obligation.  NOT decided: termination "
    "and time, stack depth, allocation failure, panics inside external crates beyond their modelled preconditions, "
    "drop glue.")
ASSUMPTIONS = [
    "external crates do not panic beyond the preconditions modelled in sv/models.py (strobe-rs 0.10 with more=false, "
    "curve25519-dalek decompress returns Option, bincode/serde return Err, base64 decode returns Result)",
    "allocation failure and stack exhaustion are out of scope", "drop glue (zeroize) does not panic",
    "usize is 64 bits in the quick tier; the thorough tier repeats the discharge with 32 bits"]
TRUSTED = ["strobe-rs 0.10.0, curve25519-dalek 4, bincode 1.3, base64 0.22, bitvec 1, ff 0.13 (modelled, not analysed)"]
CLAIM = {"category": "proof",
         "technique": "static analysis: panic-site inventory over resolved MIR call graph x input taint x discharge by dominating-guard facts with Fourier-Motzkin entailment"}

# entry point -> parameters carrying data from another party
ENTRIES = [
    ("adss::load_u32", {"bytes"}, "A"),
    ("adss::load_bytes", {"bytes"}, "A"),
    ("adss::AccessStructure::from_bytes", {"bytes"}, "A"),
    ("adss::Share::from_bytes", {"bytes"}, "A"),
    ("sta_rs::Share::from_bytes", {"bytes"}, "A"),
    ("sta_rs::Message::from_bytes", {"bytes"}, "A"),
    ("star_sharks::<share_ff::Share as std::convert::TryFrom<&[u8]>>::try_from", {"s"}, "A"),
    ("star_sharks::Sharks::recover", {"shares"}, "A"),
    ("adss::recover", {"shares"}, "A"),
    ("sta_rs::share_recover", {"shares"}, "A"),
    ("ppoprf::ppoprf::ServerPublicKey::load_from_bincode", {"data"}, "A"),
    ("ppoprf::ppoprf::ProofDLEQ::load_from_bincode", {"data"}, "A"),
    # the serde adapter that decodes the evaluated point from the server's JSON answer
    ("ppoprf::ppoprf::point_deserialize", {"d"}, "A"),
    ("ppoprf::ppoprf::Server::eval", {"p"}, "A"),
    ("ppoprf::ppoprf::Client::verify", {"public_key", "input", "eval"}, "A"),
    # the evaluated point returned by the randomness server (the example client unblinds it without verifying)
    ("ppoprf::ppoprf::Client::unblind", {"p"}, "A"),
    ("star_wasm::group_shares", {"serialized_shares", "epoch"}, "A"),
]


def run_entries(ctx, rule, entries, usize_bits=64, tag="", skip_kinds=(), skip_fns=()):
    """skip_fns: functions whose only obligation is the size computation `(len + 1) * 24` of an encoder's capacity
    hint - bounded by the element size of an in-memory vector, which the length domain does not model (DESIGN section 7)"""
    from ..check import load_known
    known = load_known()
    total = dis = 0
    out_scope = []
    samples = []
    for root, untrusted, cfg in entries:
        eng, ret, st, fr = ctx.root(root, cfg, usize_bits=usize_bits)
        obs = panic.collect(eng, root)
        n_in = 0
        for o in obs:
            if o.kind in skip_kinds or (o.fn in skip_fns and o.kind == "overflow"):
                continue
            if not panic.in_scope(o, untrusted, eng):
                out_scope.append("%s [depends on %s]" % (o.key, sorted(o.scope_deps)[:3]))
                continue
            n_in += 1
            ok = panic.discharge(eng, o, usize_bits)
            if not ok and o.debug_only:
                # a debug_assert the engine cannot prove: the site does not exist in release builds (the shipped receiver);
                # recorded in the evidence, not claimed as an obligation and not reported (DESIGN section 3, PANIC)
                ctx.extra.setdefault("debug_only_assertions_not_proven", [])
                if len(ctx.extra["debug_only_assertions_not_proven"]) < 40:
                    ctx.extra["debug_only_assertions_not_proven"].append("%s%s at %s" % (o.key, tag, o.at))
                continue
            if not ok and (ctx.pid, "%s/%s%s" % (rule, o.key, tag)) in known:
                # a site listed in KNOWN_FINDINGS.txt is a recorded violation, not an obligation claimed to hold
                ctx.extra.setdefault("known_violated_sites", []).append(o.key + tag)
            else:
                total += 1
            if ok:
                dis += 1
                if len(samples) < 30 and o.kind != "pre:len_eq":
                    samples.append({"site": o.key + tag, "where": o.at, "obligation": o.desc, "discharged_by": o.why})
            ctx.add(rule, o.key + tag, ok,
                    "input-dependent failure site not discharged: %s in %s - %s" % (o.desc, o.fn, o.why), "%s (%s)" % (o.at, o.fn),
                    sample=None, nontrivial=True)
        # engine notes that would make the inventory incomplete fail closed
        for n in eng.unsupported:
            ctx.add(rule, "%s#engine:%s%s" % (root, n[:60], tag), False, "analysis incomplete for %s: %s" % (root, n), ctx.fn(root, cfg).loc)
        ctx.add(rule + ".ENTRY", root + tag, True, "", ctx.fn(root, cfg).loc,
                sample={"entry": root, "untrusted": sorted(untrusted), "sites": len(obs), "in_scope": n_in}, nontrivial=True)
    ctx.obligations += total
    ctx.discharged += dis
    ctx.extra.setdefault("out_of_scope_sites", [])
    ctx.extra["out_of_scope_sites"] = (ctx.extra["out_of_scope_sites"] + out_scope)[:60]
    ctx.extra.setdefault("discharged_samples", [])
    ctx.extra["discharged_samples"] = (ctx.extra["discharged_samples"] + samples)[:40]
    return total, dis


def clippy_crossref(ctx, rule):
    """thorough: independent inventory.  Every site that clippy's restriction lints (unwrap_used, expect_used,
    indexing_slicing, arithmetic_side_effects, panic) report inside a function reachable from an entry must have been
    *considered* by the engine at that line: an Assert terminator, a diverging call, a modelled partial call with a
    recorded precondition, or a modelled total algebra operation.  A clippy site the engine did not look at would be
    a hole in the inventory -> fail closed."""
    import json, os, shutil, subprocess
    from .. import extract
    work = os.path.join(extract.WORK, "clippy-%d" % os.getpid())
    env = dict(os.environ, CARGO_NET_OFFLINE="true", CARGO_TARGET_DIR=work)
    env.pop("RUSTC_WORKSPACE_WRAPPER", None)
    cmd = ["cargo", "+nightly", "clippy", "--offline", "--workspace", "--lib", "-p", "star-test-utils", "--message-format=json", "--",
           "-Aclippy::all", "-Wclippy::unwrap_used", "-Wclippy::expect_used", "-Wclippy::indexing_slicing",
           "-Wclippy::arithmetic_side_effects", "-Wclippy::panic"]
    p = subprocess.run(cmd, cwd=extract.REPO, env=env, stdout=subprocess.PIPE, stderr=subprocess.DEVNULL, text=True)
    shutil.rmtree(work, ignore_errors=True)
    sites = []
    for line in p.stdout.splitlines():
        try:
            d = json.loads(line)
        except ValueError:
            continue
        if d.get("reason") != "compiler-message":
            continue
        m = d["message"]
        code = (m.get("code") or {}).get("code") or ""
        if not code.startswith("clippy::"):
            continue
        for sp in m["spans"]:
            if sp["is_primary"]:
                sites.append((sp["file_name"], sp["line_start"], sp["line_end"], code))
    if p.returncode != 0 or not sites:
        ctx.add(rule, "clippy-run", False, "clippy cross-reference could not be produced (exit %d, %d sites)" % (p.returncode, len(sites)), "")
        return
    # engine side: considered lines per function, over all entry analyses
    considered = {}
    reach = set()
    executed = set()
    for root, untrusted, cfg in ENTRIES:
        eng, ret, st, fr = ctx.root(root, cfg)
        executed |= eng.executed
        for ev in eng.events.values():
            if ev["kind"] == "ret":
                continue
            reach.add(ev["fn"])
            ok = ev["kind"] == "assert" or ev.get("diverges") or ev.get("pre") or \
                (ev.get("model") or "").startswith(("m_alg", "m_unwrap", "m_ct_unwrap", "m_index", "m_scalar", "m_int_bitop", "m_fp_")) or \
                ev.get("inlined")
            if ok:
                f, ln = ev["at"].rsplit(":", 1)
                considered.setdefault(ev["fn"], set()).add((f, int(ln)))
    F = ctx.F("A")
    fns = [f for f in F.fns.values() if f.name in reach and f.end]
    holes = []
    pruned = []
    matched = 0
    for (file, l0, l1, code) in sorted(sites):
        owners = [f for f in fns if f.loc.rsplit(":", 1)[0] == file and int(f.loc.rsplit(":", 1)[1]) <= l0 <= f.end]
        if not owners:
            continue     # not in a function reachable from a receiving entry point
        # innermost owner(s): closures are nested in their parent's range
        hit = False
        for f in owners:
            for (cf, cl) in considered.get(f.name, ()):
                if cf == file and l0 <= cl <= l1:
                    hit = True
        if not hit:
            # the site sits only in blocks that no entry's analysis ever executed: infeasible under the entries'
            # arguments (constant propagation through the inlined call context), e.g. `if out.len() != 32 { panic!() }`
            # behind a fixed 32-byte buffer
            blocks = []
            for f in owners:
                for bi, b in enumerate(f.blocks):
                    lines = [x["at"] for x in b["s"]] + [b["t"].get("at", "")]
                    if any(a.rsplit(":", 1)[0] == file and l0 <= int(a.rsplit(":", 1)[1]) <= l1 for a in lines if a):
                        blocks.append((f.name, bi))
            if blocks and not any(x in executed for x in blocks):
                hit = True
                pruned.append("%s:%d %s" % (file, l0, code))
        if hit:
            matched += 1
        else:
            holes.append("%s:%d %s (in %s)" % (file, l0, code, owners[-1].name))
    ctx.extra["clippy_crossref"] = {"clippy_sites": len(sites), "in_entry_reachable_functions": matched + len(holes),
                                    "matched_by_inventory": matched - len(pruned), "unreachable_in_context": pruned, "holes": holes}
    ctx.add(rule, "clippy-sites-covered-by-inventory", not holes,
            "clippy reports potential failure sites in entry-reachable functions that the engine's inventory did not consider: %s" % holes[:6],
            holes[0] if holes else "", sample={"clippy_sites": len(sites), "in_reachable_functions": matched + len(holes), "matched": matched,
                    "unreachable_in_context": pruned})


def run(ctx):
    total, dis = run_entries(ctx, "C09.P", ENTRIES, 64)
    ctx.floor("C09.P.ENTRY", 17)
    ctx.floor("C09.P", 60)
    if ctx.tier == "thorough":
        run_entries(ctx, "C09.P32", ENTRIES, 32, tag="@usize32")
        ext = [("ppoprf::ppoprf::ServerPublicKey::load_from_bincode", {"data"}, "B"),
               ("ppoprf::ppoprf::ProofDLEQ::load_from_bincode", {"data"}, "B"),
               ("ppoprf::ppoprf::Server::eval", {"p"}, "B"),
               ("ppoprf::ppoprf::Client::verify", {"public_key", "input", "eval"}, "B"),
               ("ppoprf::ppoprf::Client::unblind", {"p"}, "B"),
               ("star_sharks::<share_ff::Share as std::convert::TryFrom<&[u8]>>::try_from", {"s"}, "C"),
               ("star_sharks::Sharks::recover", {"shares"}, "C")]
        run_entries(ctx, "C09.PB", ext, 64, tag="@cfgBC")
        if not os.environ.get("SV_NO_DETERMINISM_CHECK"):
            clippy_crossref(ctx, "C09.X")
