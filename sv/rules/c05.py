"""C05 - authenticated recovery: the result is the shared message or an error."""
from .. import query as Q
from ..terms import is_t
from .common import S, fidx, ok_variant

EXPLANATION = (
    "Decided statically: (R1, must-pass-through) every state in which adss::recover / sta_rs::share_recover hold an "
    "`Ok` value satisfies the fact `MAC verification succeeded` - computed as the set of branch facts on edges that "
    "dominate the construction of the Ok value, closed over inlined callees (so `?`, `match`, helper extraction do "
    "not matter) - and that verification is Strobe::recv_mac over the authenticated transcript (or a full-width "
    "equality of a recomputed send_mac output with J); (R2, sibling agreement) the transcripts built by "
    "Commune::share and Commune::verify agree operation for operation and absorb, in this order, the threshold "
    "encoding, the message and the coins on top of the optional custom transcript / the default label; "
    "(R3, provenance) threshold, encrypted message, encrypted coins and MAC used by recovery all stem from the one "
    "share obtained first from the collection, the interpolation threshold is that share's threshold and the "
    "decryption key is the interpolation result; (R4) the J stored in a share is the unmodified send_mac output; (R5) Sharks::recover stores shares in collection order and interpolates a window starting at the first stored share, so the share that supplies the ciphertext always contributes its own point (alterations of its x / y change the key); the share collection reaches Sharks::recover completely and in the caller's order.  "
    "(R6) the Shamir share decoder takes x and every y_i from complete consecutive 24-byte windows through the canonical decoder and refuses out-of-range elements, so no byte of the encoded point / values is ignored.  "
    "NOT decided: MAC unforgeability; the behaviour for specific byte faults (follows from R1-R3 only under the "
    "cryptographic assumption)."
    "  Also (R7 = C16.R7) the threshold handed to the Shamir layer when sharing and when recovering is the MAC-covered threshold, unmodified and full width.")
ASSUMPTIONS = ["strobe_rs::Strobe::recv_mac returns Ok iff the MAC matches the transcript (trusted)"]
TRUSTED = []

C = "adss::Commune"
SH = "adss::Share"


def mac_gate(eng, ret, idx=0):
    """facts on the Ok alternative that establish MAC verification; returns list of (kind, term)"""
    fs = Q.facts_of_variant(eng, ret, idx)
    out = []
    if fs is None:
        return None
    for t, rel, v in fs:
        if rel == "eq" and v == 0 and t.op == "discr" and t.args[0].op == "owf" and t.args[0].args[0] == "recv_mac":
            out.append(("recv_mac", t.args[0]))
        if rel == "eq" and v == 1 and t.op == "eq":
            a, b = t.args
            for x, y in ((a, b), (b, a)):
                if x.op == "owf" and x.args[0] == "send_mac":
                    out.append(("recompute", t))
    return out


def weak_mac_gate(eng, ret, idx=0, jidx=None):
    """facts on the Ok alternative that compare (any part of) a value depending on the share's MAC J with a value
    computed from a Strobe transcript: the weakest form of `the MAC was checked` (used where the exact MAC
    construction is not the property's concern).  Returns the list of fact terms."""
    fs = Q.facts_of_variant(eng, ret, idx)
    if fs is None:
        return None
    out = []
    for t, rel, v in fs:
        if not Q.contains(t, lambda z: z.op in ("owf", "sop")):
            continue
        ps = Q.params(Q.leaves(t))
        j = jidx if jidx is not None else fidx_cache.get("J")
        jdep = any((j is not None and p.endswith(".%d" % j)) or p == "J" for p in ps) or \
            (j is not None and Q.contains(t, lambda z: z.op == "field" and z.args[1] == j and Q.params(Q.leaves(z.args[0]))))
        tr_dep = Q.contains(t, lambda z: z.op == "sop" and z.args[1] in ("ad", "key"))
        if jdep and tr_dep:
            out.append(t)
    return out


fidx_cache = {}


def run(ctx):
    fidx_cache["J"] = fidx(ctx, SH, "J")
    iA, iM, iR, iT = (fidx(ctx, C, n) for n in ("A", "M", "R", "T"))
    sA, sS, sC, sD, sJ = (fidx(ctx, SH, n) for n in ("A", "S", "C", "D", "J"))

    # ---- R1: MAC gate ------------------------------------------------------------------------------------
    for root in ("adss::recover", "sta_rs::share_recover"):
        eng, ret, st, fr = ctx.root(root)
        at = ctx.fn(root).loc
        gates = mac_gate(eng, ret, 0)
        okv = ok_variant(ret, 0)
        if okv is None:
            ctx.add("C05.R1", root + "#ok", False, "%s has no Ok result" % root, at)
            continue
        good = []
        for kind, t in gates or []:
            if kind == "recv_mac":
                good.append(t)
            else:
                good.append(t)
        ctx.add("C05.R1", root + "#mac-gate", bool(good),
                "an Ok result of %s is constructed in states where MAC verification is not known to have succeeded: "
                "no dominating branch fact `recv_mac(..) is Ok` (or full-width equality with a recomputed MAC); facts "
                "at Ok: %s" % (root, sorted(Q.show_fact(f, 2)[:90] for f in list(Q.facts_of_variant(eng, ret, 0) or []))[:5]), at,
                sample={"ok_requires": [S(t, 4) for t in good][:2]})
        # the gate's transcript must be keyed/fed by the values that are returned (message of the Ok Commune)
        if good and root == "adss::recover":
            com = okv[2][0]
            M = com.args[1 + iM] if com.op == "agg" else None
            R = com.args[1 + iR] if com.op == "agg" else None
            A = com.args[1 + iA] if com.op == "agg" else None
            t = good[0]
            tr = Q.flat_ops(Q.trace_of(t.args[1])) if t.op == "owf" else []
            datas = [d for k, d, _ in tr if k in ("ad", "key")]
            has_m = any(d is M for d in datas)
            has_r = any(d is R for d in datas)
            has_a = any(A is not None and Q.contains(d, lambda x: x is A) for d in datas)
            ctx.add("C05.R1", root + "#gate-covers-result", has_m and has_r and has_a,
                    "the verified transcript does not absorb the returned Commune's own fields (threshold %s, message %s, "
                    "coins %s)" % (has_a, has_m, has_r), at,
                    sample={"verified_transcript": Q.show_trace(Q.trace_of(t.args[1]), 4)})
            # the verified MAC value is J of the share that supplied C and D (R3 part)
            macs = [d for k, d, _ in tr if k == "recv_mac"]
            src = Q.params(Q.leaves(macs[0])) if macs else set()
            ctx.add("C05.R3", root + "#J-source", bool(macs) and all(p.endswith(".%d" % sJ) for p in src) and len(src) == 1,
                    "the MAC that is verified must be the J field of the first share; it depends on %s" % sorted(src), at,
                    sample=sorted(src))

    transcript_agreement(ctx, "C05.R2", "C05.R4")

    # ---- R3: single provenance in recover -------------------------------------------------------------
    eng, ret, st, fr = ctx.root("adss::recover")
    at = ctx.fn("adss::recover").loc
    okv = ok_variant(ret, 0)
    if okv is not None and okv[2][0].op == "agg":
        com = okv[2][0]
        A = com.args[1 + iA]
        M = com.args[1 + iM]
        R = com.args[1 + iR]
        pa = Q.params(Q.leaves(A))
        okA = pa == {"shares.first.%d" % sA} or all(p.startswith("shares.first.%d" % sA) for p in pa) and pa
        ctx.add("C05.R3", "adss::recover#A-from-first", bool(okA),
                "the recovered access structure must be the first share's; it depends on %s" % sorted(pa), at,
                sample=sorted(pa))
        # M = recv_enc(key(K), C of first) ; R = recv_enc(..., D of first)
        for nm, v, fi in (("M", M, sC), ("R", R, sD)):
            okd = v.op == "owf" and v.args[0] == "recv_enc"
            srcs = set()
            if okd:
                ops = Q.flat_ops(Q.trace_of(v.args[1]))
                last = [d for k, d, _ in ops if k == "recv_enc"][-1]
                srcs = Q.params(Q.leaves(last))
                okd = srcs == {"shares.first.%d" % fi}
            ctx.add("C05.R3", "adss::recover#%s-from-first" % nm, okd,
                    "recovered %s must be the decryption of the first share's field; ciphertext depends on %s"
                    % (nm, sorted(srcs)), at, sample=sorted(srcs))
        # decryption key = prefix of the interpolation result over all shares' S with the first share's threshold
        if M.op == "owf":
            ops = Q.flat_ops(Q.trace_of(M.args[1]))
            keys = [d for k, d, _ in ops if k == "key"]
            kp = Q.params(Q.leaves(keys[0])) if keys else set()
            okk = bool(keys) and any(p.endswith(".%d" % sS) or (".%d." % sS) in p for p in kp) and \
                not any(p.endswith(".%d" % sC) or p.endswith(".%d" % sD) or p.endswith(".%d" % sJ) for p in kp)
            ctx.add("C05.R3", "adss::recover#key-from-interpolation", okk,
                    "the decryption key must derive from the Shamir parts of the shares only; depends on %s" % sorted(kp), at,
                    sample=sorted(kp))
        # the threshold handed to Sharks::recover is the first share's A
        evs = Q.calls(eng, "star_sharks::Sharks::recover")
        thr_ok = False
        for ev in evs:
            ps = Q.params(Q.leaves(ev["argv"][0]))
            if ps and all(p.startswith("shares.first.%d" % sA) for p in ps):
                thr_ok = True
        ctx.add("C05.R3", "adss::recover#threshold-from-first", thr_ok and bool(evs),
                "the threshold used for interpolation must be the first share's threshold", at)
        # "first": obtained by peek() before anything consumes the iterator, or by first() / index 0 of the collection
        peeks = Q.calls(eng, "Peekable", in_fn="adss::recover")
        cfg = fr.cfg
        if peeks:
            cons = [e for e in Q.calls(eng, None, in_fn="adss::recover")
                    if (e.get("dname") or "").startswith("std::iter::Iterator::") and "peekable" not in (e.get("dname") or "")
                    and any(Q.contains(a, lambda t: t.op == "adapted" and "peekable" in t.args[1:]) for a in e["argv"])]
            okp = all(cfg.dominates(peeks[0]["home_block"], e["home_block"]) for e in cons)
        else:
            okp = all(p.startswith("shares.first") for p in pa) and bool(pa)
        ctx.add("C05.R3", "adss::recover#first-share", okp,
                "the share that supplies threshold/ciphertexts/MAC must be the first of the collection (peek before consumption, first(), or index 0)",
                at, sample={"peek_at": peeks[0]["at"] if peeks else "first()/[0]"})
    else:
        ctx.add("C05.R3", "adss::recover#ok-shape", False, "Ok payload of recover is not a Commune aggregate", at)
    # ---- R5: the share that supplies the ciphertext takes part in the interpolation ------------------------------
    # (its point and value are then authenticated through the key): Sharks::recover stores shares in collection order,
    # the first share is always stored (the distinctness set is empty then), and the window handed to interpolate
    # starts at index 0.
    from . import c01
    engk, retk, stk, frk = ctx.root("star_sharks::Sharks::recover")
    rootk = "star_sharks::Sharks::recover"
    pushes = [e for e in Q.calls(engk, "::push", in_fn=rootk)]
    interp = Q.calls(engk, "star_sharks::share_ff::interpolate", in_fn=rootk)
    okw = False
    det = "expected one push and one interpolate call in Sharks::recover (found %d / %d)" % (len(pushes), len(interp))
    if len(pushes) == 1 and len(interp) == 1:
        sl = interp[0]["argv"][0]
        vec = pushes[0]["argv"][0]
        in_order = Q.path_of(pushes[0]["argv"][1]) in ("shares.*",) and c01._same_coll(sl.args[0], vec) if sl.op == "slice" else False
        from0 = sl.op == "slice" and sl.args[1].op == "int" and sl.args[1].args[0] == 0
        pf = Q.closure(engk, engk.facts_at(pushes[0]["frame"], pushes[0]["block"]))
        ins_guard = any(f[0].op == "set_inserted" and f[1:] == ("eq", 1) for f in pf)
        okw = in_order and from0 and ins_guard
        det = "stored in collection order: %s, window starts at 0: %s, stored iff newly inserted x: %s" % (in_order, from0, ins_guard)
    ctx.add("C05.R5", rootk + "#first-share-is-interpolated", okw,
            "the first share (which supplies threshold, ciphertexts and MAC) must be among the interpolated points, otherwise its "
            "share point / value are not authenticated: %s" % det, interp[0]["at"] if interp else ctx.fn(rootk).loc, sample=det)
    # the caller's first share stays the first share on the way down: share_recover -> adss::recover -> Sharks::recover
    for root_, callee_, argi_ in (("sta_rs::share_recover", "adss::recover", 0), ("adss::recover", "star_sharks::Sharks::recover", 1)):
        e_, r_, _, f_ = ctx.root(root_)
        cs_ = [e for e in Q.calls(e_, callee_) if e["home"] == f_.key]
        ok_ = len(cs_) == 1
        det_ = "%d call(s)" % len(cs_)
        if ok_:
            a_ = cs_[0]["argv"][argi_]
            b_ = Q.whole_of(a_, e_, ordered=True)
            ok_ = b_ is not None and Q.path_of(b_) == "shares"
            det_ = "argument %s" % S(a_, 5)
        ctx.add("C05.R5", "%s>%s#collection-order-preserved" % (root_, callee_), ok_,
                "the shares must be handed on completely and in the caller's order (a re-keyed, sorted or reversed collection makes "
                "another share `the first share`, which decides threshold, ciphertexts and MAC): %s" % det_,
                cs_[0]["at"] if cs_ else ctx.fn(root_).loc, sample=det_)
    ctx.floor("C05.R5", 3)
    # ---- R6: no byte of an encoded share point / value is ignored by the decoder (an altered byte changes the decoded
    # element or makes the decoder refuse) ------------------------------------------------------------------------------
    from . import c08
    c08.shamir_reader_rules(ctx, "C05.R6", "C05.R6")
    ctx.floor("C05.R6", 4)
    # the threshold authenticated by the MAC is the one the interpolation runs under, unmodified and full width, when
    # sharing and when recovering (a narrowed or clamped threshold changes the polynomial degree: alterations of the
    # first share's point are then no longer reflected in the recovered key) - shared with C16.R7
    from .c16 import threshold_unmodified
    threshold_unmodified(ctx, "C05.R7", ("adss::Commune::share", "adss::recover"))
    ctx.floor("C05.R7", 2)
    ctx.floor("C05.R1", 3)
    ctx.floor("C05.R2", 8)
    ctx.floor("C05.R3", 7)
    ctx.floor("C05.R4", 1)


def transcript_agreement(ctx, rule, rule4, strict=True):
    iA, iM, iR, iT = (fidx(ctx, C, n) for n in ("A", "M", "R", "T"))
    sA, sS, sC, sD, sJ = (fidx(ctx, SH, n) for n in ("A", "S", "C", "D", "J"))
    # ---- R2: share / verify transcript agreement -----------------------------------------------------
    engs, rets, sts, frs = ctx.root("adss::Commune::share")
    engv, retv, stv, frv = ctx.root("adss::Commune::verify")
    at_s = ctx.fn("adss::Commune::share").loc
    at_v = ctx.fn("adss::Commune::verify").loc
    oks = ok_variant(rets, 0)
    J = None
    if oks is not None and oks[2][0].op == "agg":
        J = oks[2][0].args[1 + sJ]
    ctx.add(rule4, "adss::Commune::share#J-is-send_mac", J is not None and J.op == "owf" and J.args[0] == "send_mac",
            "the J stored in a share must be the unmodified Strobe send_mac output; found %s" % S(J, 3), at_s,
            sample=S(J, 3))
    tr_s = Q.trace_of(J.args[1]) if (J is not None and J.op == "owf") else []
    gv = mac_gate(engv, retv, 0) or []
    tv = [t for k, t in gv if k == "recv_mac"]
    tr_v = Q.trace_of(tv[0].args[1]) if tv else []
    if strict:
        ctx.add(rule, "adss::Commune::verify#uses-recv_mac", bool(tv),
                "Commune::verify's Ok is not established by Strobe::recv_mac over a transcript", at_v)
    elif not tv:
        # any MAC comparison: take the Strobe transcript the compared value was produced from
        for t in weak_mac_gate(engv, retv, 0, sJ) or []:
            outs = Q.find_all(t, lambda z: z.op == "owf" and z.args[0] in ("send_mac", "prf"))
            if outs:
                tr_v = Q.trace_of(outs[0].args[1])
                break
        ctx.add(rule, "adss::Commune::verify#compares-a-recomputed-mac", bool(tr_v),
                "Commune::verify's Ok is not established by comparing J with a value derived from a Strobe transcript", at_v)
    ctx.extra["share_mac_transcript"] = Q.show_trace(tr_s, 6)
    ctx.extra["verify_mac_transcript"] = Q.show_trace(tr_v, 6)
    fs, fv = Q.flat_ops(tr_s), Q.flat_ops(tr_v)
    # compare all but the final mac operation
    body_s = [(k, d) for k, d, _ in fs if k not in ("send_mac", "recv_mac", "prf")]
    body_v = [(k, d) for k, d, _ in fv if k not in ("send_mac", "recv_mac", "prf")]
    agree = len(body_s) == len(body_v) and all(a[0] == b[0] and _same(a[1], b[1]) for a, b in zip(body_s, body_v))
    first_diff = None
    for i, (a, b) in enumerate(zip(body_s, body_v)):
        if not (a[0] == b[0] and _same(a[1], b[1])):
            first_diff = (i, a[0], S(a[1], 3), b[0], S(b[1], 3))
            break
    ctx.add(rule, "adss::Commune::share~verify#agreement", agree,
            "the MAC transcripts of share and verify differ (first difference %s; lengths %d / %d)"
            % (first_diff, len(body_s), len(body_v)), at_v,
            sample={"share": Q.show_trace(tr_s, 4), "verify": Q.show_trace(tr_v, 4)})
    # coverage and order: threshold encoding, message, coins
    A_, M_, R_ = "self.%d" % iA, "self.%d" % iM, "self.%d" % iR
    for side, body, at in (("share", body_s, at_s), ("verify", body_v, at_v)):
        seq = []
        for k, d in body:
            if k in ("ad", "key", "meta_ad"):
                ps = Q.params(Q.leaves(d))
                seq.append((k, ps))
        pos = {}
        for i, (k, ps) in enumerate(seq):
            for nm, pre in (("A", A_), ("M", M_), ("R", R_)):
                if ps and all(p == pre or p.startswith(pre + ".") for p in ps):
                    pos.setdefault(nm, (i, k))
        okc = set(pos) == {"A", "M", "R"} and pos["A"][0] < pos["M"][0] < pos["R"][0] and pos["R"][1] == "key"
        ctx.add(rule, "adss::Commune::%s#covers-A-M-R" % side, okc,
                "the authenticated transcript of %s must absorb threshold, message (ad) and coins (key) as separate "
                "operations in this order; found %s" % (side, [(k, sorted(p)) for k, p in seq]), at,
                sample=[(k, sorted(p)) for k, p in seq])
        # threshold absorbed at full width
        thr = [d for k, d in body if k == "ad" and Q.params(Q.leaves(d)) and
               all(p.startswith(A_) for p in Q.params(Q.leaves(d)))]
        okw = bool(thr) and all(d.op == "bytes_of" and d.args[1] == 4 for d in thr)
        ctx.add(rule, "adss::Commune::%s#threshold-full-width" % side, okw,
                "the threshold must be authenticated as its full 4-byte encoding; found %s" % [S(d, 4) for d in thr], at)
        # base: custom transcript or the default label
        base = body[0] if body else None
        okb = base is not None and (base[0] == "new" or base[0] == "alt")
        ctx.add(rule, "adss::Commune::%s#base" % side, okb,
                "the transcript must start from the custom transcript or Strobe::new(\"adss\")", at,
                sample=S(base[1], 4) if base else None)



def _same(a, b):
    if a is b:
        return True
    if isinstance(a, tuple) and isinstance(b, tuple):
        if len(a) != len(b):
            return False
        if all(_same(x, y) for x, y in zip(a, b)):
            return True
        # alternatives of a join (custom transcript | default label) may be listed in either order
        if all(isinstance(x, tuple) for x in a) and all(isinstance(y, tuple) for y in b):
            rest = list(b)
            for x in a:
                m = [y for y in rest if _same(x, y)]
                if not m:
                    return False
                rest.remove(m[0])
            return True
        return False
    # alt structures hold nested (kind, data, rep) tuples
    return False
