"""C18 - reference aggregation server reveals exactly the measurements with >= t reports."""
from .. import lin
from .. import query as Q
from ..terms import PHI, is_t, mk
from .common import INTERIOR, S, fidx, ok_variant
from .c08 import reader_table

EXPLANATION = (
    "Decided statically on star_test_utils::AggregationServer (private helpers reached by inlining): (R1) the bucket "
    "key is a Debug rendering of the report's whole tag vector and depends on nothing else; (R2) every report of "
    "the input slice is stored exactly once: the vacant arm inserts a fresh bucket holding it, the occupied arm "
    "pushes it, the two arms are the two alternatives of one map-entry match inside the loop over all reports; "
    "(R3) a bucket survives iff len >= threshold (full-width threshold); (R4) only length-preserving adaptors "
    "(into_par_iter, map, collect) lie between the surviving buckets and the outputs, and one aux entry is "
    "produced per report of a bucket; (R5) the closure run on the rayon pool captures only &self and receives an "
    "owned bucket: no &mut capture, lock, atomic or cell, so the result cannot depend on the schedule; (R6) the "
    "decryption key is derive_ske_key(recovered message, self.epoch) and Ciphertext::decrypt runs the same keyed Strobe "
    "operation sequence as Ciphertext::new (C01.R2); (R7) a measurement-equality test over the "
    "bucket precedes the output; (R9) the revealed measurement is exactly the first length-prefixed chunk of the "
    "decrypted payload; (R8) optional-chunk agreement with the writer (aux chunk present iff aux is Some): the "
    "reader must return Some iff a second chunk is present - on the pinned tree it additionally requires the "
    "chunk to be non-empty, so Some(empty) comes back as None (KNOWN FINDING, DESIGN.md section 5 #9); (R10 = C01.R7) the client "
    "writes exactly that layout - len|measurement, then len|aux iff aux is Some, nothing before, between or after (padding or a "
    "trailer would reach the reader's second load_bytes).  NOT decided: "
    "decryption correctness, HashMap iteration order effects on the order of outputs."
    "  Also (R11 = C04.R2) the local randomness - hence tag and key - is keyed by the complete measurement bytes, so different measurements do not share a bucket.")
ASSUMPTIONS = ["rayon's map/collect over an indexed parallel iterator preserve one result per input item"]
TRUSTED = []

AS = "star_test_utils::AggregationServer"


def run(ctx):
    root = AS + "::retrieve_outputs"
    eng, ret, st, fr = ctx.root(root)
    at = ctx.fn(root).loc
    M = "sta_rs::Message"
    itag = fidx(ctx, M, "tag")
    # ---- R1 bucket key ------------------------------------------------------------------------------------
    ent = [e for e in Q.calls(eng, "HashMap::<K, V, S, A>::entry")] + [e for e in Q.calls(eng, "BTreeMap::<K, V, A>::entry")]
    okk = len(ent) == 1
    det = ""
    if okk:
        key = ent[0]["argv"][1]
        ps = Q.params(Q.leaves(key))
        fa = Q.find_all(key, lambda t: t.op == "fmtarg")
        okk = ps == {"all_messages.*.%d" % itag} and key.op == "formatted" and len(fa) == 1 and fa[0].args[0] == "new_debug" and \
            Q.path_of(fa[0].args[1]) == "all_messages.*.%d" % itag
        if not okk:
            # the tag itself (its bytes / a borrow of the whole vector) is an injective key too
            okk = ps == {"all_messages.*.%d" % itag} and Q.path_of(key) == "all_messages.*.%d" % itag
        det = "key %s depends on %s" % (S(key, 4), sorted(ps))
    ctx.add("C18.R1", AS + "::collect_messages#bucket-key-is-tag", okk,
            "the bucket key must be the Debug rendering of the whole tag and depend on nothing else: %s" % det,
            ent[0]["at"] if ent else at, sample=det)
    ctx.floor("C18.R1", 1)

    # ---- R2 every report stored once ----------------------------------------------------------------------
    ins = [e for e in Q.calls(eng, "VacantEntry") if "insert" in e["callee"]]
    # the grouping code is located through the entry call (not through the name of the function around it): pushes and
    # entry adaptors of the function the entry call sits in, or of private helpers it was moved into, and the loop that
    # drives it (the nearest enclosing frame that iterates)
    def grouping(e):
        hf = e.get("home_fn", e["fn"])
        return bool(ent) and (hf == ent[0].get("home_fn", ent[0]["fn"]) or "collect_messages" in hf or
                              e["frame"].startswith(ent[0]["frame"]) or ent[0]["frame"].startswith(e["frame"]))
    psh = [e for e in Q.calls(eng, "::push") if grouping(e) and e["args"] and e["args"][0].op == "ref" and
           any(isinstance(p_, tuple) and p_ and p_[0] == "mapval" for p_ in e["args"][0].args[1])]
    eor = [e for e in Q.calls(eng, "Entry::") if e.get("model") == "m_entry_or" and grouping(e)]
    nxt = [e for e in Q.calls(eng, "Iterator") if (e.get("dname") or "").endswith("Iterator::next") and bool(ent) and
           ent[0]["frame"].startswith(e["frame"])]
    if len(nxt) > 1:
        nxt = sorted(nxt, key=lambda e: -len(e["frame"]))[:1]          # the innermost loop around the entry call
    whole = len(nxt) == 1 and Q.variant(nxt[0]["result"], 1) is not None and Q.path_of(Q.variant(nxt[0]["result"], 1)[2][0]) == "all_messages.*" and \
        not Q.contains(nxt[0]["argv"][0], lambda t: t.op in ("adapted", "filtered"))
    ok2 = False
    det = "entry/insert/push/or_default calls: %d/%d/%d/%d" % (len(ent), len(ins), len(psh), len(eor))
    def into_bucket(e):
        tgt = e["args"][0]
        return tgt.op == "ref" and any(isinstance(p, tuple) and p[0] == "mapval" and (p[1] is ent[0]["argv"][1] or p[1] is ent[0]["args"][1])
                                       for p in tgt.args[1])
    if len(ent) == 1 and len(ins) == 1 and len(psh) == 1:
        # idiom (a): match on the entry, vacant arm inserts a fresh bucket with the report, occupied arm pushes it
        en = ent[0]["result"]
        fi = Q.closure(eng, eng.block_facts.get((ins[0]["frame"], ins[0]["block"]), frozenset()))
        fp = Q.closure(eng, eng.block_facts.get((psh[0]["frame"], psh[0]["block"]), frozenset()))
        arm_v = any(t.op == "discr" and t.args[0] is en and rel == "eq" and v == 1 for t, rel, v in fi)
        arm_o = any(t.op == "discr" and t.args[0] is en and rel == "eq" and v == 0 for t, rel, v in fp)
        el_i = ins[0]["argv"][1]
        el_p = psh[0]["argv"][1]
        stores = Q.path_of(el_p) == "all_messages.*" and el_i.op == "agg" and len(el_i.args) == 2 and Q.path_of(el_i.args[1]) == "all_messages.*"
        ok2 = arm_v and arm_o and stores and into_bucket(psh[0]) and whole
        det = "vacant arm inserts: %s, occupied arm pushes: %s, the report itself is stored: %s, into its key's bucket: %s, loop over all reports: %s" % (arm_v, arm_o, stores, into_bucket(psh[0]), whole)
    elif len(ent) == 1 and len(eor) == 1 and len(psh) == 1 and not ins:
        # idiom (b): entry(key).or_default() / or_insert_with(Vec::new) followed by one unconditional push of the report
        uncond = not Q.closure(eng, eng.block_facts.get((psh[0]["frame"], psh[0]["block"]), frozenset()) -
                               eng.block_facts.get((nxt[0]["frame"], nxt[0]["block"]), frozenset())) if nxt else False
        fresh_empty = True
        stores = Q.path_of(psh[0]["argv"][1]) == "all_messages.*"
        same_slot = psh[0]["args"][0] is eor[0]["result"] and into_bucket(psh[0])
        ok2 = stores and same_slot and whole
        det = "or_default slot of the key receives the report: %s (slot of this key: %s), loop over all reports: %s" % (stores, same_slot, whole)
    ctx.add("C18.R2", AS + "::collect_messages#each-report-stored-once", ok2,
            "both arms of the map-entry match must store the report (exactly one arm runs per report): %s" % det,
            ent[0]["at"] if ent else at, sample=det)
    ctx.floor("C18.R2", 1)

    # ---- R3 filter ---------------------------------------------------------------------------------------------
    # the surviving buckets: collect_messages(..).into_iter().filter(pred).collect()  or  buckets.retain(pred)
    fm = [e for e in Q.calls(eng, AS + "::filter_messages")]
    surv = fm[0]["result"] if len(fm) == 1 else None
    fl = [e for e in Q.calls(eng, "Iterator::filter") if "filter_messages" in e.get("home_fn", e["fn"])] + \
         [e for e in Q.calls(eng, "Vec::<T, A>::retain") if "filter_messages" in e.get("home_fn", e["fn"])]
    ok3 = False
    det = "no filter"
    core = surv
    while core is not None and core.op in ("collected", "iter", "cloned_iter"):
        core = core.args[0]
    pred = src = None
    if core is not None and core.op == "filtered":
        src, pred = core.args[0], core.args[1]
    elif core is not None and core.op == "subset" and core.args[1] == "retain" and len(core.args) == 3:
        src, pred = core.args[0], core.args[2]
    if pred is not None:
        ith = fidx(ctx, AS, "threshold")
        from .common import pred_means
        lens = Q.find_all(pred, lambda t: t.op == "len" and Q.contains(t.args[0], lambda z: z.op == "elem"))
        thr = Q.find_all(pred, lambda t: t.op == "cast" and Q.path_of(t.args[0]) == "self.%d" % ith and t.args[2] == "usize")
        ok3 = len(lens) == 1 and len(thr) >= 1 and pred_means(pred, lens[0], "ge", thr[0])
        det = S(pred, 5)
        ok3 = ok3 and Q.contains(src, lambda t: t.op == "map_values")
    ctx.add("C18.R3", AS + "::filter_messages#len-ge-threshold", ok3,
            "a bucket must survive iff bucket.len() >= threshold (over all buckets of the map); predicate %s" % det,
            fl[0]["at"] if fl else at, sample=det)
    ctx.floor("C18.R3", 1)

    # ---- R4 length-preserving chain --------------------------------------------------------------------------------
    chain = []
    t = ret
    okc = True
    target = surv
    while t is not None and is_t(t):
        if t is target:
            chain.append("<surviving buckets>")
            break
        chain.append(t.op)
        if t.op in ("collected", "iter", "cloned_iter"):
            t = t.args[0]
        elif t.op == "mapped":
            t = t.args[0]
        else:
            okc = False
            break
    # any number of map stages (recover, unwrap, ... fused or not), nothing that can drop or duplicate a bucket
    okc = okc and chain.count("mapped") >= 1 and target is not None and t is target
    ctx.add("C18.R4", root + "#one-output-per-surviving-bucket", bool(okc),
            "between the surviving buckets and the outputs only map/collect may occur (each bucket yields exactly one output); chain: %s" % chain, at, sample=chain)
    rm = [e for e in Q.calls(eng, AS + "::recover_measurements")]
    ok4 = False
    if rm and ok_variant(rm[0]["result"], 0):
        out = ok_variant(rm[0]["result"], 0)[2][0]
        O = "star_test_utils::Output"
        aux = out.args[1 + fidx(ctx, O, "aux")]
        ch = []
        t = aux
        good = True
        while is_t(t):
            ch.append(t.op)
            if t.op in ("collected", "iter", "cloned_iter", "mapped"):
                t = t.args[0]
            else:
                break
        bucket = rm[0]["argv"][1]
        ok4 = ch.count("mapped") >= 3 and t is bucket and all(c in ("collected", "iter", "cloned_iter", "mapped") for c in ch[:-1])
        if not ok4:
            # the same fact however the list is built (adaptor chain, or a vector pushed to once per report in a loop):
            # it is the element-for-element, ordered image of the bucket
            src4 = Q.whole_of(aux, eng, True)
            ok4 = src4 is not None and (src4 is bucket or (Q.path_of(src4) is not None and Q.path_of(src4) == Q.path_of(bucket)))
        ctx.add("C18.R4", AS + "::recover_measurements#one-aux-per-report", ok4,
                "the aux list must be produced by map/collect over the bucket's reports (one entry per report); chain %s" % ch,
                rm[0]["at"], sample=ch)
    ctx.floor("C18.R4", 2)

    # ---- R5 schedule independence -------------------------------------------------------------------------------------
    F = ctx.F("A")
    pm = [e for e in Q.calls(eng, "rayon::iter::ParallelIterator::map") if e["home"] == fr.key]
    ok5 = len(pm) >= 1
    caps = []
    for e in pm:
        clo = e["args"][1]
        if clo.op == "agg" and clo.args[0].startswith("closure:"):
            cf = F.fns.get(clo.args[0][len("closure:"):])
            envty = cf.locals[1] if cf else "?"
            ups = clo.args[1:]
            caps.append((envty.split("@")[0], [S(u, 2) for u in ups]))
            if envty.startswith("&mut") or any(not (u.op == "ref" and u.args[0] == (fr.key, 1)) for u in ups):
                ok5 = False
        else:
            ok5 = False
    from .common import type_walk
    tw = type_walk(ctx, AS)
    bad = [(o, f, t) for o, f, t in tw if any(m in t for m in INTERIOR)]
    ctx.add("C18.R5", root + "#parallel-closure-captures-only-&self", ok5 and not bad,
            "closures run on the thread pool may capture only &self (no &mut, no interior mutability in AggregationServer: %s); captures %s" % (bad, caps), at, sample=caps)
    ctx.floor("C18.R5", 1)

    # ---- R6 key derivation ------------------------------------------------------------------------------------------------
    dk = [e for e in Q.calls(eng, "sta_rs::derive_ske_key") if ("key_recover" in e.get("home_fn", e["fn"]) or "key_recover" in e["frame"])]
    sr = [e for e in Q.calls(eng, "sta_rs::share_recover") if ("key_recover" in e.get("home_fn", e["fn"]) or "key_recover" in e["frame"])]
    ok6 = len(dk) == 1 and len(sr) == 1
    if ok6:
        com = ok_variant(sr[0]["result"], 0)
        iM = fidx(ctx, "adss::Commune", "M")
        ok6 = com is not None and com[2][0].op == "agg" and dk[0]["argv"][0] is com[2][0].args[1 + iM] and \
            Q.path_of(dk[0]["argv"][1]) == "self.%d" % fidx(ctx, AS, "epoch")
        shares = sr[0]["argv"][0]
        mp = [t for t in Q.find_all(shares, lambda t: t.op == "mapped")]
        ish = fidx(ctx, M, "share")
        ok6 = ok6 and bool(mp) and mp[0].args[1].op == "field" and mp[0].args[1].args[1] == ish and \
            Q.contains(mp[0].args[1].args[0], lambda t: t.op == "elem")
    ctx.add("C18.R6", AS + "::key_recover#key-from-recovered-message-and-epoch", bool(ok6),
            "the payload key must be derive_ske_key(share_recover(bucket shares).get_message(), self.epoch)", dk[0]["at"] if dk else at)
    dc = [e for e in Q.calls(eng, "sta_rs::Ciphertext::decrypt")]
    ok6b = len(dc) == 1 and Q.consts(Q.leaves(dc[0]["argv"][2])) == {"star_encrypt"}
    ctx.add("C18.R6", AS + "::recover_measurements#decrypt-label", ok6b, "decryption must use the client's cipher label \"star_encrypt\"", dc[0]["at"] if dc else at)
    # the server's decryption runs the very transcript the client encrypted under (C01.R2 re-run: a decryptor that splits,
    # re-keys or re-labels the stream returns garbage for some payload sizes)
    from . import c01
    c01.payload_cipher_agreement(ctx, "C18.R6")
    ctx.floor("C18.R6", 6)
    # ---- R10 the client writes exactly the layout the reader below walks: len|measurement [len|aux], nothing after it -------
    c01.payload_framing(ctx, "C18.R10")
    ctx.floor("C18.R10", 3)
    # ---- R11 buckets are keyed by a tag that is derived from the whole measurement (C04.R2 re-run) ---------------------------
    from . import c04
    c04.measurement_keyed_whole(ctx, "C18.R11")
    ctx.floor("C18.R11", 1)

    # ---- R7 equality check before output ------------------------------------------------------------------------------------
    div = [e for e in Q.calls(eng, None) if e["diverges"] and e.get("home_fn", e["fn"]).endswith("recover_measurements")]
    ok7 = False
    for e in div:
        f = Q.closure(eng, eng.block_facts.get((e["frame"], e["block"]), frozenset()))
        if any(t.op == "eq" and rel == "eq" and v == 0 and Q.contains(t, lambda z: z.op == "elem") for t, rel, v in f):
            ok7 = True
    ctx.add("C18.R7", AS + "::recover_measurements#measurements-compared", ok7,
            "a mismatch between the measurements of one bucket must be detected before the output is built", at)
    ctx.floor("C18.R7", 1)

    # ---- R9 / R8 payload reader ----------------------------------------------------------------------------------------------
    # the payload reader is the function (closure or helper) below recover_measurements that makes the two load_bytes calls
    lb_all = [e for e in Q.calls(eng, "adss::load_bytes") if "recover_measurements" in e["frame"]]
    by_frame = {}
    for e in lb_all:
        by_frame.setdefault(e["frame"], []).append(e)
    rf = [fk for fk, es in by_frame.items() if len(es) == 2]
    lb = by_frame[rf[0]] if len(rf) == 1 else []
    rets = [ev for k, ev in eng.events.items() if k[1] == "ret" and len(rf) == 1 and ev["frame"] == rf[0]]
    if rets and not (rets[0].get("value") is not None and rets[0]["value"].op == "agg" and len(rets[0]["value"].args) == 3 and
                     lin.window(rets[0]["value"].args[1]) is not None):
        rets = []          # the two reads sit in a function that returns something else (the reader was inlined)
    if not rets:
        # the chunks may be read through a cursor type instead of load_bytes: the reader is then the function below
        # recover_measurements that returns the (measurement bytes, Option<aux>) pair cut out of one byte string
        cands = []
        for k, ev in eng.events.items():
            v_ = ev.get("value") if k[1] == "ret" else None
            if v_ is not None and "recover_measurements" in ev["frame"] and v_.op == "agg" and len(v_.args) == 3 and \
                    is_t(v_.args[2]) and v_.args[2].op in ("enum", "phi") and lin.window(v_.args[1]) is not None:
                cands.append(ev)
        if not cands:
            # the reader inlined into a loop of recover_measurements: the per-report value is what is pushed
            for ev in Q.calls(eng, "::push"):
                v_ = ev["argv"][1] if len(ev["argv"]) > 1 else None
                if v_ is not None and "recover_measurements" in ev["frame"] and v_.op == "agg" and len(v_.args) == 3 and \
                        is_t(v_.args[2]) and v_.args[2].op in ("enum", "phi") and lin.window(v_.args[1]) is not None:
                    cands.append({"value": v_, "frame": ev["frame"], "kind": "ret"})
        # (a wrapper that returns the reader's value unchanged - a closure around it - is the same candidate: keep the
        # innermost frame)
        byval = {}
        for ev in cands:
            cur = byval.get(ev["value"].id)
            if cur is None or len(ev["frame"]) > len(cur["frame"]):
                byval[ev["value"].id] = ev
        cands = list(byval.values())
        if len(cands) == 1:
            rets = cands
            w_ = lin.window(cands[0]["value"].args[1])
            lb = [{"argv": [w_[0]], "at": at}, {"argv": [w_[0]], "at": at}]
    if not rets or rets[0]["value"] is None or len(lb) != 2:
        ctx.add("C18.R9", AS + "::recover_measurements::{closure}#payload-reader", False,
                "expected the payload-splitting closure with two load_bytes calls (found %d)" % len(lb), at)
        return
    val = rets[0]["value"]
    plain = lb[0]["argv"][0]
    meas = val.args[1] if val.op == "agg" and len(val.args) == 3 else None
    auxo = val.args[2] if val.op == "agg" and len(val.args) == 3 else None
    L = lin.Ctx()
    # normalise: windows are over the plaintext value
    ok9 = False
    det = ""
    if meas is not None:
        w = lin.window(meas)
        if w is not None and w[0] is plain:
            lo, hi = L.lin(w[1]), L.lin(w[2])
            ln = hi.add(lo, -1)
            ok9 = lo.key() == lin.Lin(4).key() and len(ln.t) == 1 and ln.c == 0 and list(ln.t)[0].op == "hdr" and \
                list(ln.t)[0].args[1] == lin.Lin(0).key() and list(ln.t)[0].args[2] == lin.Lin(4).key()
            det = "measurement window [%s, %s)" % (S(w[1], 3), S(w[2], 3))
        else:
            det = "measurement is %s" % S(meas, 4)
    ctx.add("C18.R9", AS + "::recover_measurements::{closure}#measurement-is-first-chunk", ok9,
            "the revealed measurement must be exactly the first length-prefixed chunk of the decrypted payload: %s" % det, lb[0]["at"], sample=det)
    # the output measurement is that value of the first split, unmodified
    new = [e for e in Q.calls(eng, "sta_rs::SingleMeasurement::new") if e.get("home_fn", e["fn"]).endswith("recover_measurements")]
    okx = len(new) == 1 and new[0]["argv"][0].op == "field" and new[0]["argv"][0].args[1] == 0 and new[0]["argv"][0].args[0].op == "index"
    ctx.add("C18.R9", AS + "::recover_measurements#output-x-is-that-chunk", okx,
            "Output.x must be built from the measurement chunk unmodified; found %s" % (S(new[0]["argv"][0], 4) if new else None),
            new[0]["at"] if new else at)
    ctx.floor("C18.R9", 2)
    # R8: Some(aux) iff a second chunk is present
    some = Q.variant(auxo, 1) if auxo is not None else None
    if some is None:
        ctx.add("C18.R8", AS + "::recover_measurements::{closure}#aux-some", False, "the reader never returns Some(aux)", at)
    else:
        fkey = rets[0]["frame"]
        local = set(some[3])          # facts the alternative itself carries (Option::filter / then_some ...)
        for (fk, b) in some[4]:
            if fk == fkey:
                local |= set(eng.block_facts.get((fk, Q.origin_block(b)), frozenset()))
                local |= set(eng.model_alt_facts.get((fk, b), frozenset()))
        local = Q.closure(eng, local)
        conds = [f for f in local if f[0].op in ("eq", "ne", "lt", "le", "gt", "ge") and Q.contains(f[0], lambda t: t is plain)]
        # second chunk window
        a = some[2][0]
        aw = lin.window(a.args[1]) if a.op == "agg" and len(a.args) == 2 else None
        mw = lin.window(meas) if meas is not None else None
        present = []
        extra = []
        for f in conds:
            t = f[0]
            # rest = plaintext[end of measurement ..]: `rest is non-empty`
            x = L.lin(t.args[0])
            restlen = L.lin(eng.length({}, plain)).add(L.lin(mw[2]), -1) if mw else None
            if t.op == "eq" and f[1:] == ("eq", 0) and t.args[1].op == "int" and t.args[1].args[0] == 0 and restlen is not None and x.key() == restlen.key():
                present.append(f)
            else:
                extra.append(f)
        ctx.add("C18.R8", AS + "::recover_measurements::{closure}#aux-iff-chunk-present", bool(present),
                "Some(aux) must be returned when (and only when) bytes remain after the measurement chunk", lb[1]["at"])
        ctx.add("C18.R8", AS + "::recover_measurements::{closure}#aux-nonempty-guard", not extra,
                "the reader returns Some(aux) only under an additional condition (%s): a client's Some(empty) is decoded as None, "
                "which differs from what the client attached" % [Q.show_fact(f, 3) for f in extra], lb[1]["at"],
                sample=[Q.show_fact(f, 3) for f in extra])
        if aw is not None and mw is not None:
            lo, hi = L.lin(aw[1]), L.lin(aw[2])
            cur = L.lin(mw[2])
            ln = hi.add(lo, -1)
            okw = lo.add(cur.add(lin.Lin(4)), -1).key() == lin.Lin(0).key() and len(ln.t) == 1 and list(ln.t)[0].op == "hdr" and \
                list(ln.t)[0].args[1] == cur.key()
            ctx.add("C18.R8", AS + "::recover_measurements::{closure}#aux-is-second-chunk", okw,
                    "the aux must be the length-prefixed chunk that follows the measurement chunk", lb[1]["at"])
    ctx.floor("C18.R8", 3)
