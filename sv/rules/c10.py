"""C10 - puncturing removes exactly the punctured inputs; all other PRF values persist."""
from .. import query as Q
from ..cfg import cfg_of
from .common import INTERIOR, S, err_assign_blocks, fidx, frame_chain, ok_variant, type_walk

EXPLANATION = (
    "Decided statically (structural necessary conditions): (R1) GGM::eval and GGM::puncture return "
    "BadInputLength iff len(input) != inp_len, and every access to the key (prefix lookup, PRG descent, key "
    "mutation) is dominated by the equal-length edge; (R2) eval takes &self and none of GGM, GGMPuncturableKey, "
    "Prefix, GGMPseudorandomGenerator contains interior mutability or shared ownership, so evaluation cannot "
    "change the key; (R3) who-may-write: the key's fields are written only by GGMPuncturableKey::new / ::puncture "
    "(and import under key-sync); inside puncture every write is dominated by `not already punctured` and "
    "`covering prefix found`, and no error return is reachable after the first write (failed punctures leave the "
    "key unchanged); (R4) eval and puncture obtain the covering node from the same lookup function; every PRG "
    "descent in them (a loop or fold whose accumulator is fed to the generator, wherever it is written) starts from the "
    "covering node's seed and traverses, in order, exactly the bits from offset len(found prefix) on; each traversed bit "
    "selects one of two different generators, with the same bit -> generator table on both sides; (R5) on the final key "
    "state of GGM::puncture narrowed to its Ok alternative, `prefixes` is the initial set with the covering node removed "
    "(the position the lookup returned, or the position of the element whose bits equal the found prefix) and then only "
    "extended (otherwise the punctured input stays evaluable); (R6) the initial node for bit b is derived with generator b from the sampled root secret (two different generators - otherwise sibling inputs share values); (R7) evaluation depends, by data and control, only on the retained prefixes, the generators and the input - not on the list of punctured inputs.  NOT decided: that exactly the punctured inputs "
    "are removed and every other value persists over all puncture histories (correctness of the co-path algorithm), "
    "distinctness of values - these need execution or a proof of the algorithm and are outside this family.")
ASSUMPTIONS = ["bitvec split_at/starts_with/to_bitvec behave as documented (models in sv/models.py)"]
TRUSTED = []

GGM = "ppoprf::ggm::GGM"
KEY = "ppoprf::ggm::GGMPuncturableKey"
EVAL = "ppoprf::<ggm::GGM as PPRF>::eval"
PUNC = "ppoprf::<ggm::GGM as PPRF>::puncture"


def length_guard(ctx, rule, root, cfg="A"):
    eng, ret, st, fr = ctx.root(root, cfg)
    at = ctx.fn(root, cfg).loc
    il = fidx(ctx, GGM, "inp_len", cfg)
    want = None
    # every call touching the key is dominated by eq(len(input), self.inp_len)
    ik = fidx(ctx, GGM, "key", cfg)
    kpre = "self.%d" % ik

    def touches_key(e):
        deps = set()
        for a in e["argv"]:
            deps |= Q.params(Q.leaves(a))
        if any(p == kpre or p.startswith(kpre + ".") for p in deps):
            return True
        if "self" in deps:
            # whole `self` handed to a helper: a key access iff something below that call reads the key
            sub = e["frame"] + "/" + str(e["block"])
            for e2 in eng.events.values():
                if e2["kind"] == "call" and e2["frame"].startswith(sub):
                    for a in e2["argv"]:
                        if any(p == kpre or p.startswith(kpre + ".") for p in Q.params(Q.leaves(a))):
                            return True
        return False
    touched = [e for e in Q.calls(eng, None) if e["local"] and e["home"] == fr.key and touches_key(e)]
    okall = bool(touched)
    bad = []
    for e in touched:
        fs = Q.closure(eng, eng.facts_at(e["frame"], e["block"]))
        has = False
        for t, rel, v in fs:
            if t.op == "eq" and rel == "eq" and v == 1:
                a, b = t.args
                names = {Q.path_of(a.args[0]) if a.op == "len" else Q.path_of(a), Q.path_of(b.args[0]) if b.op == "len" else Q.path_of(b)}
                if names == {"input", "self.%d" % il} and (a.op == "len") != (b.op == "len"):
                    has = True
        if not has:
            okall = False
            bad.append("%s at %s" % (e["callee"].split("::")[-1], e["at"]))
    ctx.add(rule, root + "#key-access-after-length-check", okall,
            "every access to the key must be dominated by `input.len() == self.inp_len`; unguarded: %s" % bad, at,
            sample={"guarded_calls": [e["callee"].split("::")[-1] for e in touched]})
    # the refusal carries BadInputLength and happens on the complementary edge
    err = Q.variant(ret, 1)
    fs_err = set()
    okr = False
    for (fk, b) in (err[4] if err else ()):
        if fk != fr.key:
            continue
        f = Q.closure(eng, eng.facts_at(fk, b))
        if any(t.op == "eq" and rel == "eq" and v == 0 and {Q.path_of(x.args[0]) if x.op == "len" else Q.path_of(x) for x in t.args} == {"input", "self.%d" % il}
               for t, rel, v in f):
            okr = True
    ctx.add(rule, root + "#refuses-wrong-length", okr,
            "an Err must be returned on the `input.len() != self.inp_len` edge", at)


def run(ctx):
    length_guard(ctx, "C10.R1", EVAL)
    length_guard(ctx, "C10.R1", PUNC)
    ctx.floor("C10.R1", 4)

    # ---- R2 eval is read-only -----------------------------------------------------------------------------
    fe = ctx.fn(EVAL)
    ctx.add("C10.R2", EVAL + "#shared-self", fe.locals[1].startswith("&") and not fe.locals[1].startswith("&mut"),
            "PPRF::eval for GGM must take &self; found %s" % fe.locals[1], fe.loc, sample=fe.locals[1])
    tw = type_walk(ctx, GGM)
    owners = {o for o, _, _ in tw}
    bad = [(o, f, t) for o, f, t in tw if any(m in t for m in INTERIOR)]
    ctx.add("C10.R2", GGM + "#no-interior-mutability", not bad and len(owners) >= 4,
            "key types must not contain interior mutability / shared ownership: %s (types walked: %s)" % (bad, sorted(owners)), fe.loc,
            sample={"types_walked": sorted(owners), "fields": len(tw)})
    # no write into *self during eval
    eng, ret, st, fr = ctx.root(EVAL)
    w = [k for k in eng.param_writes if k[2] == ("param", "self")]
    ctx.add("C10.R2", EVAL + "#no-writes-to-self", not w, "eval writes into the key: %s" % w, fe.loc)
    ctx.floor("C10.R2", 3)

    # ---- R3 who-may-write + failure paths are mutation-free ------------------------------------------------
    writers(ctx, "C10.R3", "A")
    eng, ret, st, fr = ctx.root(PUNC)
    at = ctx.fn(PUNC).loc
    ws = [(k, v) for k, v in eng.param_writes.items() if k[2] == ("param", "self")]
    ctx.add("C10.R3", PUNC + "#writes-found", len(ws) >= 2, "expected the key mutations of puncture (found %d write sites)" % len(ws), at,
            sample=sorted({v.split("::")[-1] + ":bb%s" % k[1] for k, v in ws}))
    okg, oke = True, True
    badg, bade = [], []
    kpfx = "self.%d.%d" % (fidx(ctx, GGM, "key"), fidx(ctx, KEY, "prefixes"))
    for (fk, b, loc, path), fname in ws:
        fs = Q.closure(eng, eng.facts_at(fk, b))
        not_punct = any(t.op == "iter_any" and rel == "eq" and v == 0 for t, rel, v in fs)
        # a search of the retained node set has succeeded: its position is known to be below the set's size
        found = any(t.op == "lt" and rel == "eq" and v == 1 and t.args[0].op == "iter_position" and t.args[1].op == "len_iter" and
                    all(p == kpfx or p.startswith(kpfx + ".") for p in Q.params(Q.leaves(t.args[0].args[0]))) and
                    Q.params(Q.leaves(t.args[0].args[0])) for t, rel, v in fs)
        if not (not_punct and found):
            okg = False
            badg.append("%s bb%s" % (fname.split("::")[-1], b))
        # no Err reachable after the write, in this frame and in every caller frame after the call returns
        frx = eng.frames[fk]
        chain = [(frx, b)] + frame_chain(eng, fk)
        for f2, blk in chain:
            errs = err_assign_blocks(f2.fn)
            reach = set()
            for s_ in f2.cfg.succ[blk]:
                reach |= f2.cfg.reachable_from(s_)
            if errs & reach:
                oke = False
                bade.append("%s: Err at bb%s reachable after write/call in bb%s" % (f2.fn.name.split("::")[-1], sorted(errs & reach), blk))
    ctx.add("C10.R3", PUNC + "#writes-guarded", okg,
            "every key mutation in puncture must be dominated by `not already punctured` and `covering prefix found`; unguarded: %s" % badg, at)
    ctx.add("C10.R3", PUNC + "#no-error-after-write", oke,
            "an error return is reachable after the key has been modified (a failed puncture must leave the key unchanged): %s" % bade, at)
    ctx.floor("C10.R3", 4)

    descent_rules(ctx, "C10.R4")
    ctx.floor("C10.R4", 5)
    # ---- R6 initial nodes: the child for bit b is derived with PRG b (the one bit_eval uses for bit b) ----------------
    initial_nodes(ctx, "C10.R6")
    ctx.floor("C10.R6", 2)
    # ---- R7 evaluation consults only the retained prefixes and the input bits, never the list of punctured inputs ----
    eng, ret, st, fr = ctx.root(EVAL)
    ip = fidx(ctx, KEY, "punctured")
    ik_ = fidx(ctx, GGM, "key")
    deps = Q.params(Q.leaves_cd(eng, ret, enum_origins=True)) | Q.params(Q.leaves_cd(eng, st.get(("param", "output")), enum_origins=True)) if st else set()
    bad = sorted(p for p in deps if p.startswith("self.%d.%d" % (ik_, ip)))
    ctx.add("C10.R7", EVAL + "#independent-of-punctured-list", not bad,
            "evaluation (success and value) must be decided by the retained prefixes and the input alone; it depends on the "
            "punctured list: %s" % bad, ctx.fn(EVAL).loc, sample=sorted(deps))
    ctx.floor("C10.R7", 1)
    # ---- R5 = C11.R2: a successful puncture removes the covering node (else the input stays evaluable) -------
    from .c11 import covering_removed
    covering_removed(ctx, "C10.R5")
    ctx.floor("C10.R5", 2)


def initial_nodes(ctx, rule, check_root_secret=False):
    root = "ppoprf::ggm::GGMPuncturableKey::new"
    eng, ret, st, fr = ctx.root(root)
    at = ctx.fn(root).loc
    iprg, ipf = fidx(ctx, KEY, "prgs"), fidx(ctx, KEY, "prefixes")
    if ret is None or ret.op != "agg":
        ctx.add(rule, root + "#shape", False, "GGMPuncturableKey::new does not return a key aggregate", at)
        return
    prgs = ret.args[1 + iprg]
    pfx = ret.args[1 + ipf]
    keys = []
    if prgs.op == "agg":
        for g in prgs.args[1:]:
            keys.append(g.args[1] if g.op == "agg" and len(g.args) == 2 else None)
    nodes = []
    if pfx.op == "agg":
        for el in pfx.args[1:]:
            if el.op == "agg" and len(el.args) == 3:
                bits = [t.args[1].args[0] for t in Q.find_all(el.args[1], lambda t: t.op == "ext" and "BitElement::new" in str(t.args[0]) and len(t.args) > 1 and t.args[1].op == "int")]
                bits += [t.args[0].args[0] for t in Q.find_all(el.args[1], lambda t: t.op == "cast" and t.args[0].op == "int")]
                nodes.append((bits[0] if bits else None, el.args[2]))
    ok = len(keys) == 2 and len(nodes) == 2 and {b for b, _ in nodes} == {0, 1} and keys[0] is not keys[1]
    det = "expected two PRGs and the two nodes [0], [1]; found %d PRGs, nodes %s" % (len(keys), [b for b, _ in nodes])
    if ok:
        for b, seed in nodes:
            ks = [d for k, d, _ in Q.flat_ops(Q.trace_of(seed.args[1]))] if seed.op == "owf" else []
            kd = [d for k, d, _ in Q.flat_ops(Q.trace_of(seed.args[1])) if k == "key"] if seed.op == "owf" else []
            if not (kd and kd[0] is keys[b]):
                ok = False
                det = "the node for bit %d is not derived with PRG %d (the generator bit_eval uses for that bit)" % (b, b)
    ctx.add(rule, root + "#child-b-uses-prg-b", ok,
            "the two initial tree nodes must be derived with different generators, node [b] with prgs[b]: %s" % det, at, sample=det)
    # both are derived from the same freshly sampled root secret (an RNG atom), which is not kept
    roots = []
    for b, seed in nodes:
        ads = [d for k, d, _ in Q.flat_ops(Q.trace_of(seed.args[1])) if k == "ad"] if seed.op == "owf" else []
        roots.append(ads[0] if ads else None)
    okr = len(roots) == 2 and roots[0] is not None and roots[0] is roots[1] and roots[0].op == "rng"
    ctx.add(rule, root + "#both-children-from-the-discarded-root", okr,
            "both initial nodes must be PRG outputs of the same freshly sampled root secret (not of one another): inputs %s" % [S(r, 3) for r in roots],
            at, sample=[S(r, 3) for r in roots])


def covering_node(P):
    """the covering node as the callers use it: the found (prefix, seed) pair itself, a borrow of it, or the element of
    `prefixes` at the position the lookup returned"""
    from ..sym import index as sym_index
    n_ = 0
    while P.op in ("refv", "deref", "conv") and len(P.args) == 1 and n_ < 6:
        P = P.args[0]
        n_ += 1
    if P.op == "iter_position":
        src_ = P.args[0]
        while src_.op in ("iter", "cloned_iter", "refv") and src_.args:
            src_ = src_.args[0]
        P = sym_index(src_, P)
    return P


PRG = "GGMPseudorandomGenerator::eval"


def _strip(t):
    n = 0
    while Q.is_t(t) and t.op in ("refv", "deref", "conv", "cloned", "copied") and len(t.args) == 1 and n < 8:
        t = t.args[0]
        n += 1
    return t


def _strip_conv(t):
    n = 0
    while Q.is_t(t) and n < 8 and ((t.op in ("refv", "deref", "conv", "cloned", "copied") and len(t.args) == 1) or t.op == "cast"):
        t = t.args[0]
        n += 1
    return t


def _traversed(it):
    """what an iterator term walks completely and in order, down to a (possibly sliced) collection"""
    n = 0
    while Q.is_t(it) and n < 16:
        n += 1
        if it.op in ("iter", "cloned_iter", "refv", "deref", "copied", "conv") and it.args:
            it = it.args[0]
        elif it.op == "adapted" and it.args[1] in ("peekable", "by_ref", "fuse"):
            it = it.args[0]
        else:
            break
    return it if Q.is_t(it) else None


def prg_descents(eng):
    """every PRG descent in the analysed root: a loop (or fold) whose accumulator is fed to the generator, as
    (event, init, traversed collection or None, {bit value: generator reference})"""
    from ..terms import PHI
    out = []
    for e in Q.calls(eng, PRG):
        acc = _strip(e["argv"][1])
        fv = Q.fold_view(acc, eng)
        if fv is None:
            out.append((e, None, None, {}))
            continue
        init = _strip(fv[0])
        it = fv[2]
        if it is None and acc.op == "phi":
            # the body selects the generator by the traversed bit (control dependence only): take the loop's own iterator
            ps = Q.phi_site(eng, acc.args[0])
            if ps is not None:
                its = [x["argv"][0] for x in Q.calls(eng, "Iterator::next") if x["frame"] == ps[0] and x["argv"] and x["argv"][0] is not None]
                its = list({x.id: x for x in its}.values())
                if len(its) == 1:
                    it = its[0]
        whole = _traversed(it) if it is not None else None
        sel = {}
        g = e["argv"][0]
        if Q.is_t(g) and g.op == "phi":
            ps = Q.phi_site(eng, g.args[0])
            for k, x in (PHI.get(g.args[0]) or {}).items():
                bit = None
                for t, rel, v in (eng.facts_at(ps[0], k) if ps is not None else []):
                    if Q.contains(t, lambda z: z.op == "elem") and _strip(t).op == "elem":
                        if rel == "eq" and v in (0, 1):
                            bit = v
                        elif rel == "notin" and tuple(v) == (0,):
                            bit = 1
                        elif rel == "notin" and tuple(v) == (1,):
                            bit = 0
                sel[bit] = Q.path_of(x) or S(x, 5)
        elif Q.is_t(g) and g.op == "index" and _strip_conv(g.args[1]).op == "elem":
            # prgs[usize::from(bit)]: the generator is indexed by (a conversion of) the traversed bit itself
            base = Q.path_of(g.args[0]) or S(g.args[0], 4)
            sel = {0: "%s.[0]" % base, 1: "%s.[1]" % base}
        elif Q.is_t(g) and g.op == "ref":
            # prgs[usize::from(bit)]: the generator is indexed by (a conversion of) the traversed bit itself
            ix = [p_[1] for p_ in g.args[1] if isinstance(p_, tuple) and p_ and p_[0] == "i" and Q.is_t(p_[1])]
            if len(ix) == 1 and _strip_conv(ix[0]).op == "elem":
                base = ".".join(str(p_[1]) if isinstance(p_, tuple) else str(p_) for p_ in g.args[1] if not (isinstance(p_, tuple) and p_[0] == "i"))
                sel = {0: "%s[%s][0]" % (g.args[0], base), 1: "%s[%s][1]" % (g.args[0], base)}
        out.append((e, init, whole, sel))
    return out


def descent_rules(ctx, rule):
    # ---- R4 one lookup, same descent -------------------------------------------------------------------------
    sides = {}
    for root in (EVAL, PUNC):
        eng, ret, st, fr = ctx.root(root)
        fp = Q.calls(eng, "GGMPuncturableKey::find_prefix")
        ds = prg_descents(eng)
        at = ctx.fn(root).loc
        if len(fp) != 1 or not ds:
            ctx.add(rule, root + "#shape", False, "expected one prefix lookup and at least one PRG descent (found %d/%d)" % (len(fp), len(ds)), at)
            continue
        okp = Q.variant(fp[0]["result"], 0)
        P = okp[2][0] if okp and okp[2] else None
        if P is None:
            ctx.add(rule, root + "#lookup-result", False, "find_prefix has no Ok payload", at)
            continue
        from ..sym import field
        P = covering_node(P)
        bits = field(field(P, 0), 0)
        seed = field(P, 1)
        seed_ok = all(init is seed for _, init, _, _ in ds)
        offs = []
        desc_ok = True
        for e, init, whole, sel in ds:
            if whole is None or whole.op != "slice":
                desc_ok = False
                offs.append(S(whole, 4) if whole is not None else "?")
                continue
            lo = whole.args[1]
            offs.append(S(lo, 4))
            if not (lo.op == "len" and lo.args[0] is bits):
                desc_ok = False
        ctx.add(rule, root + "#descent-from-covering-node", seed_ok and desc_ok,
                "values must be derived from the covering node's seed over exactly the bits after the covering prefix, in "
                "order (seed is the found seed: %s; descent over the tail starting at len of the found prefix: %s); descents over %s"
                % (seed_ok, desc_ok, offs), ds[0][0]["at"],
                sample={"offset": offs, "seed": S(seed, 4)})
        sels = [tuple(sorted((str(k), v) for k, v in sel.items())) for _, _, _, sel in ds]
        sides[root] = (fp[0]["callee"], sels[0] if len(set(sels)) == 1 else tuple(sels))
        ctx.add(rule, root + "#bit-selects-generator", len(set(sels)) == 1 and len(ds[0][3]) == 2 and None not in ds[0][3] and
                len(set(ds[0][3].values())) == 2,
                "each traversed bit must select one of two different generators: %s" % (sels,), ds[0][0]["at"])
        # lookup is over the whole key and the input's bits
        inp = Q.params(Q.leaves(fp[0]["argv"][1]))
        ctx.add(rule, root + "#lookup-on-input-bits", "input" in inp or any(p.startswith("input") for p in inp),
                "the prefix lookup must be made on the bits of the input; depends on %s" % sorted(inp), fp[0]["at"])
    if len(sides) == 2:
        ctx.add(rule, "eval~puncture#same-lookup-and-descent", sides[EVAL] == sides[PUNC],
                "eval and puncture must use the same lookup function and the same bit -> generator selection: %s vs %s" % (sides[EVAL], sides[PUNC]),
                ctx.fn(PUNC).loc)


def writers(ctx, rule, cfg):
    """who-may-write the key fields / server fields: statements and &mut borrows of those fields, by function"""
    F = ctx.F(cfg)
    allowed = {
        ("GGMPuncturableKey", "prefixes"): {"ppoprf::ggm::GGMPuncturableKey::new", "ppoprf::ggm::GGMPuncturableKey::puncture"},
        ("GGMPuncturableKey", "punctured"): {"ppoprf::ggm::GGMPuncturableKey::new", "ppoprf::ggm::GGMPuncturableKey::puncture"},
        ("GGMPuncturableKey", "prgs"): {"ppoprf::ggm::GGMPuncturableKey::new"},
        ("GGM", "key"): {PUNC, "ppoprf::<ggm::GGM as PPRF>::setup", "ppoprf::ppoprf::Server::set_private_key"},
        ("GGM", "inp_len"): {"ppoprf::<ggm::GGM as PPRF>::setup"},
        ("Server", "oprf_key"): {"ppoprf::ppoprf::Server::new", "ppoprf::ppoprf::Server::set_private_key"},
        ("Server", "public_key"): {"ppoprf::ppoprf::Server::new", "ppoprf::ppoprf::Server::set_private_key"},
        ("Server", "pprf"): {"ppoprf::ppoprf::Server::new", "ppoprf::ppoprf::Server::puncture", "ppoprf::ppoprf::Server::set_private_key"},
    }
    adts = {"GGMPuncturableKey": KEY, "GGM": GGM, "Server": "ppoprf::ppoprf::Server"}
    found = {}
    for f in F.fns.values():
        if f.crate != "ppoprf" or f.derived or "::tests::" in f.name:
            continue
        for bi, b in enumerate(f.blocks):
            stmts = list(b["s"])
            for s in stmts:
                targets = []
                if "l" in s:
                    targets.append(("assign", s["l"]))
                    r = s["r"]
                    if "ref" in r and r.get("mut"):
                        targets.append(("borrow", r["ref"]))
                    if "agg" in r and isinstance(r["agg"], dict) and "adt" in r["agg"]:
                        nm = r["agg"]["adt"].split("::")[-1]
                        if nm in adts:
                            for fname, _, _ in [(x[0], x[1], x[2]) for x in F.adt(adts[nm])["variants"][0]["fields"]]:
                                found.setdefault((nm, fname), set()).add(f.name)
                for kind, pl in targets:
                    ty = f.locals[pl[0]]
                    cur = ty
                    for e in pl[1]:
                        if e == "*":
                            cur = cur.lstrip("&").replace("mut ", "", 1).strip() if cur.startswith("&") else cur
                            continue
                        if e[0] == "f":
                            base = cur.split("<")[0].split("::")[-1]
                            if base in adts:
                                flds = F.adt(adts[base])["variants"][0]["fields"]
                                if e[1] < len(flds):
                                    found.setdefault((base, flds[e[1]][0]), set()).add(f.name)
                                    cur = flds[e[1]][1]
                                    continue
                            cur = "?"
                        else:
                            cur = "?"
    for key, who in sorted(found.items()):
        if key not in allowed:
            continue
        extra = who - allowed[key]
        ctx.add(rule, "ppoprf#writers:%s.%s" % key, not extra,
                "field %s.%s is written/mutably borrowed by %s; only %s may" % (key[0], key[1], sorted(extra), sorted(allowed[key])),
                "ppoprf/src", sample=sorted(w.split("::", 1)[1] for w in who))
