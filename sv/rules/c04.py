"""C04 - tags and keys are a function of exactly (measurement, epoch, threshold)."""
from .. import query as Q
from .common import S, expand_oneof, fidx, ok_variant

EXPLANATION = (
    "Decided statically (necessary conditions of C04, for all inputs at once): (R1) the exact dependency signature "
    "of the local randomness, of the tag and of the encryption key - computed by a forward dependency analysis of "
    "the MIR with all workspace callees inlined - equals {measurement, epoch, threshold} (resp. {rnd, epoch}); no "
    "RNG draw and no associated data flows into them; (R2) the Strobe transcript absorbs the measurement as its own "
    "`key` operation and epoch and threshold each as their own `ad` operation, so no operation mixes two "
    "variable-length inputs; (R3) the threshold reaches its operation through a full-width u32 encoding with no "
    "narrowing cast; (R4) the share's evaluation point is drawn from the OS generator on every path, is the only random atom "
    "in a share, and is not provably narrower than 16 random bytes (no constant sub-window fill, no narrowing cast); (R5) both client APIs take key seed and tag from the same derived elements.  NOT decided: collision resistance of Strobe, distinctness of OS-random points."
    "  The key operation must absorb the complete measurement (not a window of it).")
ASSUMPTIONS = ["Strobe operations are modelled as one-way accumulators (sv/models.py); Strobe's framing of "
               "separate operations is trusted", "rand::rngs::OsRng is the OS generator"]
TRUSTED = []

MG = "sta_rs::MessageGenerator"


def whole_value(t, path):
    """t is the complete value at `path` (borrowed / copied as a whole), not a window or a transformation of it: two
    measurements that differ outside a window must not be absorbed as the same key"""
    n = 0
    while Q.is_t(t) and t.op in ("refv", "deref", "conv", "copied", "cloned", "collected") and t.args and n < 12:
        t = t.args[0]
        n += 1
    return Q.is_t(t) and t.op in ("param", "field", "payload") and Q.path_of(t) == path


def measurement_keyed_whole(ctx, rule):
    """the per-measurement randomness (hence tag and key) is keyed by the WHOLE measurement (shared: C04.R2, C18.R11 - a
    truncated key puts different measurements into one bucket)"""
    ix = fidx(ctx, MG, "x")
    X = "self.%d.0" % ix
    eng, ret, st, fr = ctx.root("sta_rs::MessageGenerator::sample_local_randomness")
    out = st.get(("param", "out")) if st else None
    tr = Q.trace_of(out.args[1]) if out is not None and out.op == "owf" else []
    keyops = [d for k, d, _ in Q.flat_ops(tr) if k == "key"]
    ctx.add(rule, "sample_local_randomness#keyed-by-whole-measurement", len(keyops) == 1 and whole_value(keyops[0], X),
            "the local randomness must be keyed by the complete measurement bytes; key data %s" % [S(d, 5) for d in keyops],
            ctx.fn("sta_rs::MessageGenerator::sample_local_randomness").loc, sample=[S(d, 5) for d in keyops])


def run(ctx):
    ix = fidx(ctx, MG, "x")
    ie = fidx(ctx, MG, "epoch")
    it = fidx(ctx, MG, "threshold")
    X, E, T = "self.%d.0" % ix, "self.%d" % ie, "self.%d" % it
    names = {X: "measurement", E: "epoch", T: "threshold"}

    # ---- R1: exact signature of local randomness -------------------------------------------------------
    eng, ret, st, fr = ctx.root("sta_rs::MessageGenerator::sample_local_randomness")
    out = st.get(("param", "out"))
    at = ctx.fn("sta_rs::MessageGenerator::sample_local_randomness").loc
    lv = Q.leaves(out)
    ps = Q.params(lv)
    rn = Q.rngs(lv)
    want = {X, E, T}
    missing = want - ps
    extra = ps - want
    ctx.add("C04.R1", "sta_rs::MessageGenerator::sample_local_randomness#signature",
            not missing and not extra and not rn,
            "local randomness must depend on exactly {measurement, epoch, threshold}: missing %s, extra %s, rng %s"
            % (sorted(names.get(m, m) for m in missing), sorted(extra), sorted(map(str, rn))), at,
            sample={"depends_on": sorted(names.get(p, p) for p in ps), "rng_atoms": len(rn)})

    # ---- R2 / R3: framing ---------------------------------------------------------------------------------
    sops = [x for x in Q.find_all(out, lambda x: x.op == "owf")]
    tr = Q.trace_of(out.args[1]) if out is not None and out.op == "owf" else []
    flat = Q.flat_ops(tr)
    ctx.extra["local_randomness_trace"] = Q.show_trace(tr, 10)
    keyops = [(k, d) for k, d, _ in flat if k == "key"]
    adops = [(k, d, rep) for k, d, rep in flat if k == "ad"]
    # measurement is absorbed by its own key operation
    okk = len(keyops) == 1 and Q.params(Q.leaves(keyops[0][1])) == {X} and whole_value(keyops[0][1], X)
    ctx.add("C04.R2", "sample_local_randomness#key-op", okk,
            "the measurement must enter the transcript as the data of one `key` operation of its own; found %s"
            % [S(d, 5) for _, d in keyops], at, sample=[S(d, 6) for _, d in keyops])
    # each of epoch / threshold is absorbed by its own ad operation
    singles = []
    for k, d, rep in adops:
        for e in expand_oneof(d):
            singles.append(e)
    per = [Q.params(Q.leaves(e)) for e in singles]
    ok_sep = all(len(p) <= 1 for p in per) and {E} in per and {T} in per
    ctx.add("C04.R2", "sample_local_randomness#ad-ops", ok_sep,
            "epoch and threshold must each be absorbed by an `ad` operation of its own (no concatenation of "
            "variable-length inputs); operations found: %s" % [S(e, 5) for e in singles], at,
            sample=[S(e, 6) for e in singles])
    # no single operation's data depends on two different inputs
    mixed = [(k, S(d, 5)) for k, d, _ in flat if k in ("key", "ad", "meta_ad")
             for e in [d] if d.op != "oneof" and len(Q.params(Q.leaves(d)) & want) > 1]
    ctx.add("C04.R2", "sample_local_randomness#no-mixed-op", not mixed,
            "a transcript operation absorbs more than one of measurement/epoch/threshold at once: %s" % mixed, at)
    # R3: threshold encoded full width
    thr = [e for e in singles if Q.params(Q.leaves(e)) == {T}]
    okw = bool(thr) and all(e.op == "bytes_of" and e.args[1] == 4 and Q.path_of(e.args[0]) == T for e in thr)
    ctx.add("C04.R3", "sample_local_randomness#threshold-width", okw,
            "the threshold must reach its `ad` operation as the 4-byte encoding of the full u32 "
            "(no narrowing cast); found %s" % [S(e, 6) for e in thr], at, sample=[S(e, 6) for e in thr])

    # ---- R1: tag / key of Message::generate depend on (rnd, epoch) only --------------------------------
    eng, ret, st, fr = ctx.root("sta_rs::Message::generate")
    okv = ok_variant(ret, 0)
    at = ctx.fn("sta_rs::Message::generate").loc
    if okv is None:
        ctx.add("C04.R1", "sta_rs::Message::generate#ok", False, "generate has no Ok result", at)
    else:
        msg = okv[2][0]
        M = "sta_rs::Message"
        tag = msg.args[1 + fidx(ctx, M, "tag")]
        ps = Q.params(Q.leaves(tag))
        rn = Q.rngs(Q.leaves(tag))
        ctx.add("C04.R1", "sta_rs::Message::generate#tag", ps == {"rnd"} and not rn,
                "the tag must be a function of the client randomness only; depends on %s, rng %d" % (sorted(ps), len(rn)),
                at, sample={"tag_depends_on": sorted(ps)})
        # encryption key = the key argument handed to the payload cipher
        ci = Q.calls(eng, "sta_rs::Ciphertext::new", in_fn="sta_rs::Message::generate")
        keys = [e["argv"][0] for e in ci]
        ep = "mg.%d" % ie
        okk = bool(keys) and all(Q.params(Q.leaves(k)) == {"rnd", ep} and not Q.rngs(Q.leaves(k)) for k in keys)
        ctx.add("C04.R1", "sta_rs::Message::generate#enc-key", okk,
                "the payload key must depend on exactly {client randomness, epoch}; found %s"
                % [sorted(Q.params(Q.leaves(k))) for k in keys], at,
                sample=[sorted(Q.params(Q.leaves(k))) for k in keys])

    # ---- R1: share_with_local_randomness: key and tag depend on exactly the three inputs ---------------
    eng, ret, st, fr = ctx.root("sta_rs::MessageGenerator::share_with_local_randomness")
    at = ctx.fn("sta_rs::MessageGenerator::share_with_local_randomness").loc
    okv = ok_variant(ret, 0)
    if okv is None:
        ctx.add("C04.R1", "share_with_local_randomness#ok", False, "no Ok result", at)
    else:
        m = okv[2][0]
        W = "sta_rs::WASMSharingMaterial"
        for fld in ("key", "tag"):
            v = m.args[1 + fidx(ctx, W, fld)]
            lv = Q.leaves(v)
            ps = Q.params(lv)
            rn = Q.rngs(lv)
            ctx.add("C04.R1", "share_with_local_randomness#%s" % fld, ps == want and not rn,
                    "%s must depend on exactly {measurement, epoch, threshold}: missing %s, extra %s, rng atoms %d"
                    % (fld, sorted(names.get(x, x) for x in want - ps), sorted(ps - want), len(rn)), at,
                    sample={fld + "_depends_on": sorted(names.get(p, p) for p in ps)})
        # R4: the only random atom of the share is the evaluation point, drawn from OsRng
        sh = m.args[1 + fidx(ctx, W, "share")]
        rn = Q.rngs(Q.leaves(sh))
        kinds = {r[1] for r in rn}
        ctx.add("C04.R4", "share_with_local_randomness#share-point-rng",
                len(rn) >= 1 and all(k.endswith("OsRng") for k in kinds),
                "every random atom of a share must be a draw from the OS generator; found %s" % sorted(kinds), at,
                sample=sorted(map(str, rn)))
        # the evaluation point itself is a random draw on every path (never a fixed point)
        from .common import always_random
        inner = sh.args[1] if sh.op == "agg" and len(sh.args) == 2 else sh
        Sv = inner.args[1 + fidx(ctx, "adss::Share", "S")] if inner.op == "agg" else None
        xv = Sv.args[1 + fidx(ctx, "star_sharks::share_ff::Share", "x")] if Sv is not None and Sv.op == "agg" else None
        ctx.add("C04.R4", "share_with_local_randomness#share-point-random-on-every-path", xv is not None and always_random(xv),
                "the share's evaluation point must be a random draw on every path (a fixed point makes agreeing clients emit identical shares); x = %s" % S(xv, 4), at)
        from .common import narrow_random
        nr = narrow_random(xv) if xv is not None else ["no evaluation point"]
        ctx.add("C04.R4", "share_with_local_randomness#share-point-full-width", not nr,
                "the evaluation point must be a full-width draw (>= 16 random bytes): independent clients must not collide on x; %s" % nr, at,
                sample={"narrowing_found": nr})
        # R5: both client APIs derive tag and key the same way (a WASM client and a native client agree)
    ctx.floor("C04.R1", 5)
    ctx.floor("C04.R2", 3)
    ctx.floor("C04.R3", 1)
    ctx.floor("C04.R4", 3)
    sib_roles(ctx, "C04.R5")
    ctx.floor("C04.R5", 1)


def sib_roles(ctx, rule):
    from .common import fidx, ok_variant
    sib = {}
    for root2 in ("sta_rs::Message::generate", "sta_rs::MessageGenerator::share_with_local_randomness"):
        e2, r2, _, _ = ctx.root(root2)
        dk2 = Q.calls(e2, "sta_rs::derive_ske_key")
        ok2 = ok_variant(r2, 0)
        tg = None
        if ok2 is not None and ok2[2][0].op == "agg":
            adt = "sta_rs::Message" if root2.endswith("generate") else "sta_rs::WASMSharingMaterial"
            tg = ok2[2][0].args[1 + fidx(ctx, adt, "tag")]

        def ix(t):
            from .common import role_id
            return role_id(t) if t is not None else None
        sib[root2] = (ix(dk2[0]["argv"][0]) if dk2 else None, ix(tg))
    vals = list(sib.values())
    ctx.add(rule, "generate~share_with_local_randomness#same-tag-and-key-derivation", len(vals) == 2 and vals[0] == vals[1] and None not in vals[0],
            "both client APIs must take the key seed and the tag from the same elements of the derived vector, otherwise clients that agree on "
            "(measurement, epoch, threshold) get different tags/keys depending on the API: %s" % sib, ctx.fn("sta_rs::Message::generate").loc,
            sample={k.split("::")[-1]: v for k, v in sib.items()})
