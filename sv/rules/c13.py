"""C13 - evaluation proofs are complete, sound against tampering, and never reuse a nonce."""
import re

from .. import query as Q
from ..terms import PHI, Term
from .common import S, fidx, ok_variant

EXPLANATION = (
    "Decided statically: (R1) the verdict of Client::verify depends on every component of the statement (public "
    "key base and per-tag part, tag, input point, output point, proof challenge and response), verify_batch's "
    "result is the equality of the stored challenge with the recomputed one, and `true` is returned on no other "
    "path; (R2) prover (new_batch) and verifier (verify_batch) hash challenge transcripts of the same shape: five "
    "length-prefixed compressed points (public value, M, Z, t2, t3) under the same label, the composites absorb "
    "the seed (from public value and context string), the index and both points of every pair; (R3) the proof "
    "nonce is one fresh OS-generator draw per new_batch call and the response is nonce - challenge * key; (R4) "
    "the public value is base key + per-tag key looked up by the tag, a missing tag gives an error.  (R5) the size guards in front of the public-key and proof decoders admit the largest honest encoding (point + count + 256 x (tag, point) = 8488 bytes; two scalars = 64 bytes); (R6, feature key-sync) import replaces the whole key state unconditionally with the imported values (C11.R4), so a synced server never proves over a key its public key does not commit to.  NOT decided: "
    "completeness and soundness of the DLEQ proof system (algebra, random-oracle argument)."
    "  Also (R7 = C10.R6 / C10.R4) the per-tag PRF tells sibling tags apart: two different generators for the two initial nodes, generator selected by the bit in every descent - otherwise a proof for tag 2k verifies under tag 2k+1.")
ASSUMPTIONS = ["Strobe-based hash_to_scalar is a random oracle; curve arithmetic is correct"]
TRUSTED = []

P = "ppoprf::ppoprf::"


def challenge_parts(ctx, root):
    eng, ret, st, fr = ctx.root(root)
    # in the function itself or in a helper it calls (frames below the root)
    hs = [e for e in Q.calls(eng, "ProofDLEQ::hash_to_scalar") if e["home"] == fr.key or e["frame"].startswith(fr.key + "/")]
    return eng, ret, fr, hs


def shape(parts):
    out = []
    for p in parts:
        if p[0] != "part":
            out.append(p[0])
            continue
        t = p[1]
        if t.op == "bytes_of":
            c = t.args[0]
            v = c.args[0] if c.op == "int" else (c.args[0].args[0] if c.op == "cast" and c.args[0].op == "int" else "?")
            out.append("len%s:%s%s" % (t.args[1], t.args[2], v))
        elif t.op == "bytes" and len(t.args[0]) == 4:
            out.append("len2:be%d" % int(t.args[0], 16))      # a constant 2-byte big-endian length (e.g. a const prefix)
        elif t.op == "compress":
            out.append("point")
        elif t.op == "owf":
            out.append("digest")
        else:
            out.append(t.op)
    return out


def run(ctx):
    # ---- R1 verdict completeness --------------------------------------------------------------------------------
    root = P + "Client::verify"
    eng, ret, st, fr = ctx.root(root)
    at = ctx.fn(root).loc
    ps = Q.params(Q.leaves_cd(eng, ret)) if ret is not None else set()
    PK = "ppoprf::ppoprf::ServerPublicKey"
    EV = "ppoprf::ppoprf::Evaluation"
    PR = "ppoprf::ppoprf::ProofDLEQ"
    need = {
        "public key base": "public_key.%d" % fidx(ctx, PK, "base_pk"),
        "public key per-tag part": "public_key.%d" % fidx(ctx, PK, "md_pks"),
        "tag": "md",
        "input point": "input.0",
        "output point": "eval.%d" % fidx(ctx, EV, "output"),
        "proof": "eval.%d" % fidx(ctx, EV, "proof"),
    }
    missing = [n for n, pre in need.items() if not any(p == pre or p.startswith(pre + ".") for p in ps)]
    ctx.add("C13.R1", root + "#depends-on-every-component", not missing,
            "the verdict ignores %s (it depends on %s): a tampered value there cannot be rejected" % (missing, sorted(ps)), at,
            sample=sorted(ps))
    ic, is_ = fidx(ctx, PR, "c"), fidx(ctx, PR, "s")
    pre = need["proof"]
    okcs = any(p.endswith(".%d" % ic) and p.startswith(pre) for p in ps) and any(p.endswith(".%d" % is_) and p.startswith(pre) for p in ps)
    ctx.add("C13.R1", root + "#depends-on-c-and-s", okcs, "the verdict must depend on both proof scalars; depends on %s" % sorted(p for p in ps if p.startswith(pre)), at)
    # `true` only via verify_batch
    def alternatives(v, depth=0):
        # every value the verdict can take, through (nested) joins
        if v is not None and v.op == "phi" and depth < 6:
            out_ = []
            for w in (PHI.get(v.args[0]) or {}).values():
                out_ += alternatives(w, depth + 1)
            return out_
        return [v]
    vals = alternatives(ret)
    oktrue = all((v.op == "int" and v.args[0] == 0) or v.op == "eq" for v in vals) and any(v.op == "eq" for v in vals)
    ctx.add("C13.R1", root + "#true-only-from-challenge-equality", oktrue,
            "verify may return true only as the result of the challenge comparison; return values: %s" % [S(v, 3) for v in vals], at,
            sample=[S(v, 2) for v in vals])
    root = P + "ProofDLEQ::verify_batch"
    engv, retv, stv, frv = ctx.root(root)
    atv = ctx.fn(root).loc
    okeq = retv is not None and retv.op == "eq" and \
        any(Q.path_of(a) == "self.%d" % ic for a in retv.args) and any(a.op == "from_bytes_mod_order_wide" and Q.contains(a, lambda t: t.op == "owf") for a in retv.args)
    ctx.add("C13.R1", root + "#result-is-challenge-equality", okeq,
            "verify_batch must return (stored challenge == recomputed challenge); found %s" % S(retv, 4), atv, sample=S(retv, 3))
    ctx.floor("C13.R1", 4)

    # ---- R2 challenge agreement and coverage ---------------------------------------------------------------------
    sides = {}
    for root in (P + "ProofDLEQ::new_batch", P + "ProofDLEQ::verify_batch"):
        eng, ret, frx, hs = challenge_parts(ctx, root)
        at = ctx.fn(root).loc
        ch = [e for e in hs if Q.consts(Q.leaves(e["argv"][1])) == {"Challenge"}]
        if len(ch) != 1:
            ctx.add("C13.R2", root + "#challenge-hash", False, "expected one hash_to_scalar(.., \"Challenge\") (found %d)" % len(ch), at)
            continue
        parts = Q.unroll_literal_loops(Q.parts_of(ch[0]["argv"][0]))
        sh = shape(parts)
        pts = [p[1].args[0] for p in parts if p[0] == "part" and p[1].op == "compress"]
        pts = [x.args[0] if x.op in ("refv", "deref") else x for x in pts]
        sides[root] = (sh, pts, eng)
        good = sh == ["len2:be32", "point"] * 5 and len({p.id for p in pts}) == 5
        ctx.add("C13.R2", root + "#five-length-prefixed-points", good,
                "the challenge must hash five distinct length-prefixed compressed points (public value, M, Z, t2, t3); found %s" % sh,
                ch[0]["at"], sample=sh)
        if len(pts) == 5:
            pv, M, Z, t2, t3 = pts
            okpv = Q.path_of(pv) == "public_value"
            deps = [sorted(Q.params(Q.leaves(x))) for x in pts]
            if root.endswith("verify_batch"):
                okc = okpv and "p" in [d.split(".")[0] for d in deps[1]] and "q" in [d.split(".")[0] for d in deps[2]] and \
                    {"self.%d" % is_, "self.%d" % ic} <= set(deps[3]) and "public_value" in deps[3] and \
                    {"self.%d" % is_, "self.%d" % ic} <= set(deps[4])
            else:
                r3 = Q.rngs(Q.leaves(t2)), Q.rngs(Q.leaves(t3))
                okc = okpv and any(d.startswith("p") for d in deps[1]) and "key" in deps[2] and bool(r3[0]) and bool(r3[1])
            ctx.add("C13.R2", root + "#point-roles", okc,
                    "the five points must be the public value, the composites M and Z, and the two commitments; dependencies %s" % deps,
                    ch[0]["at"], sample=deps)
    if len(sides) == 2:
        a, b = list(sides.values())
        ctx.add("C13.R2", "new_batch~verify_batch#same-transcript-shape", a[0] == b[0],
                "prover and verifier hash different challenge transcripts: %s vs %s" % (a[0], b[0]), ctx.fn(P + "ProofDLEQ::verify_batch").loc)
    # composites
    root = P + "ProofDLEQ::compute_composites"
    eng, ret, st, fr = ctx.root(root)
    at = ctx.fn(root).loc
    hs = Q.calls(eng, "ProofDLEQ::hash_to_scalar")
    comp = [e for e in hs if Q.consts(Q.leaves(e["argv"][1])) == {"Composite"}]
    okc = False
    sh = None
    if len(comp) == 1:
        parts = Q.parts_of(comp[0]["argv"][0])
        sh = shape(parts)
        deps = [sorted(Q.params(Q.leaves(p[1]))) for p in parts if p[0] == "part"]
        okc = len(sh) == 7 and sh[1] == "digest" and sh[4] == "point" and sh[6] == "point" and \
            any(Q.contains(p[1], lambda t: t.op == "range_elem") for p in parts[2:3]) and \
            deps[4] and all(d.startswith("c") for d in deps[4]) and deps[6] and all(d.startswith("d") for d in deps[6]) and \
            "b" in deps[1]
    ctx.add("C13.R2", root + "#composite-transcript", okc,
            "each composite scalar must hash (seed from public value, index i, c[i], d[i]); found %s" % sh, at, sample=sh)
    # every batch element contributes to the composites unconditionally (no element is skipped depending on its value)
    adds = [e for e in Q.calls(eng, None) if e.get("model") == "m_alg_add" and e["home"] == fr.key]
    okall = len(adds) >= 2
    badc = []
    for e in adds:
        fs = Q.closure(eng, eng.block_facts.get((e["frame"], e["block"]), frozenset()))
        for t, rel, v in fs:
            # (conditions that mention the batch only through its length / the position counter are iteration bounds)
            ps = Q.params(Q.atoms(t, stop_ops={"len", "len_iter", "range_elem"}))
            if any(p.startswith("c") or p.startswith("d") or p.startswith("b") for p in ps) and not (t.op == "discr" and Q.contains(t, lambda z: z.op == "range_elem")):
                # a condition on the points themselves (iteration bounds `i < c.len()` are fine)
                if not (t.op in ("lt", "le", "eq", "ne") and all(x.op in ("len", "int", "range_elem") or Q.contains(x, lambda z: z.op == "len") for x in t.args)):
                    okall = False
                    badc.append(Q.show_fact((t, rel, v), 3))
    ctx.add("C13.R2", root + "#every-element-contributes", okall,
            "the composite accumulation must not be conditional on the value of a batch element (a skipped element is not bound by the proof): %s" % badc,
            at, sample={"accumulations": len(adds), "conditions_on_points": badc})
    ctx.floor("C13.R2", 7)

    # ---- R3 nonce ------------------------------------------------------------------------------------------------
    root = P + "ProofDLEQ::new_batch"
    eng, ret, st, fr = ctx.root(root)
    at = ctx.fn(root).loc
    okn = False
    det = S(ret, 4)
    if ret is not None and ret.op == "agg":
        s = ret.args[1 + is_]
        c = ret.args[1 + ic]
        if s.op == "alg_sub" and s.args[0].op == "scalar_random":
            rs = Q.rngs(Q.leaves(s.args[0]))
            fresh = len(rs) == 1 and all(r[1].endswith("OsRng") and r[2].startswith(fr.key + "/") for r in rs) and not Q.params(Q.leaves(s.args[0]))
            m = s.args[1]
            okmul = m.op == "alg_mul" and any(x is c for x in m.args) and any(Q.path_of(x) == "key" for x in m.args)
            okn = fresh and okmul
            det = "nonce atoms %s, response %s" % (sorted(map(str, rs)), S(s, 3))
    ctx.add("C13.R3", root + "#fresh-nonce", okn,
            "the response must be (fresh OS-generator nonce) - challenge * key with the nonce drawn inside new_batch: %s" % det, at, sample=det)
    # the commitments use the same nonce
    _, _, _, hs = challenge_parts(ctx, root)
    ctx.floor("C13.R3", 1)

    # ---- R4 public value --------------------------------------------------------------------------------------------
    root = P + "ServerPublicKey::get_combined_pk_value"
    eng, ret, st, fr = ctx.root(root)
    at = ctx.fn(root).loc
    okv = ok_variant(ret, 0)
    ib, im = fidx(ctx, PK, "base_pk"), fidx(ctx, PK, "md_pks")
    okp = False
    if okv is not None:
        adds = Q.find_all(okv[2][0], lambda t: t.op == "alg_add")
        for a in adds:
            d = [sorted(Q.params(Q.leaves(x))) for x in a.args]
            if ["self.%d.0" % ib] in d and any("md" in x and any(y.startswith("self.%d" % im) for y in x) for x in d):
                okp = True
    ctx.add("C13.R4", root + "#base-plus-tag-key", okp,
            "the public value must be base key + the key registered for the tag; found %s" % S(okv[2][0] if okv else None, 5), at)
    fs = Q.facts_of_variant(eng, ret, 0) or set()
    okh = any(t.op == "map_has" and rel == "eq" and v == 1 for t, rel, v in fs)
    ctx.add("C13.R4", root + "#missing-tag-is-error", okh, "Ok requires the tag to be present in the public key map", at)
    ctx.floor("C13.R4", 2)

    # ---- R5 restoring an honest public key / proof is never refused for its size --------------------------------------
    from .c15 import const_value
    from .. import lin
    from ..terms import mk
    cpl = const_value(ctx, P + "COMPRESSED_POINT_LEN")
    F = ctx.F()
    pkf = [f[1] for f in F.adt(PK)["variants"][0]["fields"]]
    prf = [f[1] for f in F.adt(P + "ProofDLEQ")["variants"][0]["fields"]]
    sizes = {}
    if pkf == ["ppoprf::Point", "std::collections::BTreeMap<u8, ppoprf::Point>"] and cpl:
        sizes[P + "ServerPublicKey::load_from_bincode"] = cpl + 8 + 256 * (1 + cpl)     # point . u64 count . 256 x (u8 tag, point)
    if prf == ["curve25519_dalek::Scalar", "curve25519_dalek::Scalar"]:
        sizes[P + "ProofDLEQ::load_from_bincode"] = 64
    ctx.add("C13.R5", "ppoprf::ppoprf#bincode-layout-known", len(sizes) == 2,
            "ServerPublicKey must be (Point, BTreeMap<u8, Point>) and ProofDLEQ two Scalars for the size computation; found %s / %s" % (pkf, prf),
            ctx.fn(P + "ServerPublicKey::load_from_bincode").loc)
    for root, mx in sorted(sizes.items()):
        eng, ret, st, fr = ctx.root(root)
        de = [e for e in Q.calls(eng, "bincode::deserialize") if e["home"] == fr.key]
        ok5 = False
        det = "no deserialize call"
        if len(de) == 1:
            fs = Q.closure(eng, eng.facts_at(de[0]["frame"], de[0]["block"]))
            L = lin.Ctx()
            for f in fs:
                L.add_fact(f)
            d = L.lin(mk("len", mk("param", "data"))).add(lin.Lin(mx), -1)
            ok5 = not lin.infeasible(L.constraints() + [d, d.scale(-1)])
            det = "largest honest encoding is %d bytes; reaches the decoder: %s" % (mx, ok5)
        ctx.add("C13.R5", root + "#largest-honest-encoding-admitted", ok5,
                "an honestly serialised value of maximal size (256 registered tags) must not be refused by the size guard: %s" % det,
                de[0]["at"] if de else ctx.fn(root).loc, sample=det)
    ctx.floor("C13.R5", 3)

    # ---- R6 (feature key-sync) an imported key state replaces oprf key, public key and puncturable key together, so the
    # proofs a synced server produces are over the key its own public key commits to -----------------------------------
    from .c11 import export_import
    export_import(ctx, "C13.R6")
    ctx.floor("C13.R6", 6)
    # ---- R7 different tags have different committed keys only if the per-tag PRF tells sibling tags apart: the two
    #         initial tree nodes come from two different generators and every descent selects the generator by the bit
    #         (C10.R6 / C10.R4 re-run) - otherwise a proof for tag 2k verifies under tag 2k+1
    from . import c10
    c10.initial_nodes(ctx, "C13.R7")
    c10.descent_rules(ctx, "C13.R7")
    ctx.floor("C13.R7", 7)
