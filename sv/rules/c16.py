"""C16 - ADSS sharing is deterministic up to the share point; recovery rebuilds it."""
from .. import query as Q
from ..terms import FIRST_CELLS
from .common import S, fidx, ok_variant
from . import c05

EXPLANATION = (
    "Decided statically: (R1) in Commune::share the fields A, C, D, J and both inputs of the dealer (secret and "
    "coefficient source) contain no RNG atom and depend on nothing but (threshold, message, coins, transcript); "
    "the only random atom of a share is the OS-generator draw handed to Evaluator::gen, and S depends on nothing "
    "else besides the polynomials; (R2) recovery rebuilds (A, M, R) from the first share and re-verifies the MAC "
    "(the C05 rules, re-run); (R3) recovery from zero shares and with threshold 0 is refused on every path "
    "(emptiness guards of adss::recover, Sharks::recover and interpolate dominate every Ok); (R4) recover always "
    "verifies against the default transcript label, so shares made under a custom transcript meet a different "
    "transcript prefix.  NOT decided: that t shares of independent invocations combine (interpolation algebra).")
ASSUMPTIONS = ["rand::rngs::OsRng is the only non-deterministic input of Commune::share"]
TRUSTED = []


def threshold_unmodified(ctx, rule, roots, cfg="A"):
    """the threshold travels unmodified from the access structure into Sharks"""
    for root7 in roots:
        e7, r7, _, _ = ctx.root(root7, cfg)
        cs = [e for e in Q.calls(e7, "star_sharks::Sharks::") if e["callee"].endswith(("::dealer_rng", "::recover"))]
        ok7 = bool(cs)
        found = []
        for e in cs:
            sh_ = e["argv"][0]
            thr = sh_.args[1] if sh_.op == "agg" and len(sh_.args) == 2 else None
            p = Q.path_of(thr) if thr is not None else None
            found.append(p or S(thr, 3))
            if p is None or not p.endswith(".0"):
                ok7 = False
        ctx.add(rule, root7 + "#threshold-passed-unmodified", ok7,
                "Sharks must be parameterised with exactly the access structure's threshold (no clamping, narrowing or arithmetic): %s" % found,
                ctx.fn(root7, cfg).loc, sample=found)


def run(ctx):
    root = "adss::Commune::share"
    eng, ret, st, fr = ctx.root(root)
    at = ctx.fn(root).loc
    CM, SH = "adss::Commune", "adss::Share"
    allowed = {"self.%d" % fidx(ctx, CM, n) for n in ("A", "M", "R", "T")}
    okv = ok_variant(ret, 0)
    if okv is None or okv[2][0].op != "agg":
        ctx.add("C16.R1", root + "#ok", False, "share has no Ok(Share) aggregate", at)
        return
    sh = okv[2][0]

    def within(ps):
        return all(any(p == a or p.startswith(a + ".") for a in allowed) for p in ps)
    for n in ("A", "C", "D", "J"):
        v = sh.args[1 + fidx(ctx, SH, n)]
        lv = Q.leaves(v)
        ctx.add("C16.R1", root + "#deterministic:" + n, not Q.rngs(lv) and within(Q.params(lv)),
                "share field %s must be a deterministic function of (threshold, message, coins, transcript); rng atoms %s, inputs %s"
                % (n, sorted(map(str, Q.rngs(lv))), sorted(Q.params(lv))), at, sample={n: sorted(Q.params(lv))})
    dr = Q.calls(eng, "star_sharks::Sharks::dealer_rng")
    if len(dr) == 1:
        for i, nm in ((1, "secret"), (2, "coefficient-source")):
            lv = Q.leaves(dr[0]["argv"][i])
            ctx.add("C16.R1", root + "#dealer-" + nm, not Q.rngs(lv) and within(Q.params(lv)),
                    "the dealer's %s must be deterministic in (threshold, message, coins, transcript); rng %s inputs %s"
                    % (nm, sorted(map(str, Q.rngs(lv))), sorted(Q.params(lv))), dr[0]["at"])
    else:
        ctx.add("C16.R1", root + "#dealer", False, "expected one dealer_rng call", at)
    Sv = sh.args[1 + fidx(ctx, SH, "S")]
    rn = Q.rngs(Q.leaves(Sv))
    gen = Q.calls(eng, "star_sharks::share_ff::Evaluator::gen")
    sites_ok = len(rn) >= 1
    ctx.add("C16.R1", root + "#share-has-a-random-point", sites_ok,
            "the share must contain a random draw (its evaluation point); found %s" % sorted(map(str, rn)), at,
            sample=sorted(r[2].split("/")[-2] + ":" + r[1] for r in rn))
    # S = evaluation of the dealt polynomials at that point
    SS = "star_sharks::share_ff::Share"
    if Sv.op == "agg":
        x = Sv.args[1 + fidx(ctx, SS, "x")]
        y = Sv.args[1 + fidx(ctx, SS, "y")]
        from .common import always_random
        ctx.add("C16.R1", root + "#x-is-the-draw", always_random(x) and not Q.params(Q.leaves(x)),
                "the evaluation point must be the random draw and nothing else; depends on %s" % sorted(Q.params(Q.leaves(x))), at)
        ctx.add("C16.R1", root + "#y-from-polynomials", within(Q.params(Q.leaves(y))),
                "the share values may depend only on the polynomials and the point", at)
    ctx.floor("C16.R1", 9)

    # ---- R2 = C05 -----------------------------------------------------------------------------------------
    e2, ret2, _, fr2 = ctx.root("adss::recover")
    c05.fidx_cache["J"] = fidx(ctx, SH, "J")
    g = c05.mac_gate(e2, ret2, 0)
    gw = c05.weak_mac_gate(e2, ret2, 0, fidx(ctx, SH, "J"))
    ctx.add("C16.R2", "adss::recover#mac-gate", bool(gw), "recovery must re-check the MAC against the rebuilt sharing before returning Ok", ctx.fn("adss::recover").loc)
    ok2 = ok_variant(ret2, 0)
    iT = fidx(ctx, CM, "T")
    if ok2 is not None and ok2[2][0].op == "agg":
        T = ok2[2][0].args[1 + iT]
        none = T.op == "enum" and {a[0] for a in T.args[1]} == {0}
        ctx.add("C16.R4", "adss::recover#default-transcript", none,
                "the recovered Commune must carry no custom transcript (T = None), so verification uses the default label; found %s" % S(T, 3),
                ctx.fn("adss::recover").loc)
        gates = [t for k, t in (g or []) if k == "recv_mac"]
        tr = None
        if gates:
            tr = Q.trace_of(gates[0].args[1])
        else:
            for t in gw or []:
                outs = Q.find_all(t, lambda z: z.op == "owf" and z.args[0] in ("send_mac", "prf", "recv_mac"))
                if outs:
                    tr = Q.trace_of(outs[0].args[1])
                    break
        lab = Q.consts(Q.leaves(tr[0][1])) if tr and tr[0][0] == "new" else None
        ctx.add("C16.R4", "adss::recover#verifies-under-default-label", lab == {"adss"},
                "recover must verify under Strobe::new(\"adss\"); transcript starts with %s" % (Q.show_trace(tr[:1], 3) if tr else None),
                ctx.fn("adss::recover").loc, sample=Q.show_trace(tr, 3) if tr else None)
    # share and verify build the same authenticated transcript, including the optional custom transcript T
    c05.transcript_agreement(ctx, "C16.R2", "C16.R2", strict=False)
    ctx.floor("C16.R2", 6)
    ctx.floor("C16.R4", 2)

    # ---- R3 zero-share / threshold-0 refusal --------------------------------------------------------------
    fs = Q.facts_of_variant(e2, ret2, 0) or set()
    nonempty_in = any(f[0].op == "iter_empty" and f[1:] == ("eq", 0) for f in fs) or \
        any(f[0].op == "eq" and f[1:] == ("eq", 0) and f[0].args[1].op == "int" and f[0].args[1].args[0] == 0 and
            f[0].args[0].op in ("len", "len_iter") and Q.path_of(f[0].args[0].args[0]) == "shares" for f in fs) or \
        any(f[0].op == "discr" and f[1:] == ("eq", 1) and f[0].args[0].op == "phi" and f[0].args[0].id in FIRST_CELLS and
            (Q.path_of(FIRST_CELLS[f[0].args[0].id]) or "").startswith("shares.first") for f in fs)   # set-once first cell is Some
    ctx.add("C16.R3", "adss::recover#no-shares-refused", nonempty_in,
            "an Ok of adss::recover must imply that the share collection was not empty", ctx.fn("adss::recover").loc)
    e3, ret3, _, _ = ctx.root("star_sharks::share_ff::interpolate")
    f3 = Q.facts_of_variant(e3, ret3, 0) or set()
    ne = any(f[0].op == "eq" and f[1:] == ("eq", 0) and Q.contains(f[0], lambda t: t.op == "len" and Q.path_of(t.args[0]) == "shares") for f in f3)
    ctx.add("C16.R3", "star_sharks::share_ff::interpolate#empty-refused", ne,
            "interpolate must refuse an empty share list (this is what makes threshold 0 never recover)",
            ctx.fn("star_sharks::share_ff::interpolate").loc)
    e4, ret4, _, _ = ctx.root("star_sharks::Sharks::recover")
    it = Q.calls(e4, "star_sharks::share_ff::interpolate")
    okz = False
    if it:
        sl = it[0]["argv"][0]
        # with threshold 0 the slice values[0..0] is empty, which interpolate refuses: needs the slice bound to be the threshold
        from .. import lin
        Lz = lin.Ctx()
        okz = False
        if sl.op == "slice":
            w = Lz.lin(sl.args[2]).add(Lz.lin(sl.args[1]), -1)
            # the window's width is exactly the threshold term
            okz = len(w.t) == 1 and w.c == 0 and list(w.t.values())[0] == 1 and Q.params(Q.leaves(list(w.t)[0])) == {"self.0"}
    ctx.add("C16.R3", "star_sharks::Sharks::recover#threshold-0-gives-empty-slice", okz,
            "the slice handed to interpolate must be bounded by the threshold (threshold 0 => empty => refused)",
            ctx.fn("star_sharks::Sharks::recover").loc)
    ctx.floor("C16.R3", 3)

    # ---- R6 = C01.R3: share and recover run the same keyed cipher over message then coins (needed to rebuild (M, R))
    from . import c01
    c01.adss_cipher_agreement(ctx, "C16.R6")
    ctx.floor("C16.R6", 2)
    # ---- R7 the threshold travels unmodified from the access structure into Sharks (share and recover alike) --------
    threshold_unmodified(ctx, "C16.R7", ("adss::Commune::share", "adss::recover"))
    ctx.floor("C16.R7", 2)

    # ---- R5: no length combination of message / coins can crash sharing or recovery (PANIC engine of C09) ------
    from . import c09
    c09.run_entries(ctx, "C16.R5", [("adss::Commune::share", {"self.%d" % fidx(ctx, CM, "M"), "self.%d" % fidx(ctx, CM, "R")}, "A"),
                                     ("adss::recover", {"shares"}, "A")], 64)
    ctx.floor("C16.R5.ENTRY", 2)      # both entry points analysed (the number of failure sites may legitimately shrink)
