"""helpers shared by the per-property rule modules"""
from .. import query as Q
from ..check import AnchorMissing
from ..terms import PHI, Term, is_t, mk, show, subterms


def fidx(ctx, adt, name, cfg="A"):
    """index of a named field of a workspace struct (follows reordering of fields)"""
    try:
        a = ctx.F(cfg).adt(adt)
    except KeyError as e:
        raise AnchorMissing(str(e))
    for i, f in enumerate(a["variants"][0]["fields"]):
        if f[0] == name:
            return i
    raise AnchorMissing("field %s of %s" % (name, adt))


def fields(ctx, adt, cfg="A"):
    try:
        a = ctx.F(cfg).adt(adt)
    except KeyError as e:
        raise AnchorMissing(str(e))
    return [(f[0], f[1], f[2]) for f in a["variants"][0]["fields"]]


def pnames(ctx, root, mapping):
    """translate param paths like 'self.2' to readable names using `mapping` {path-prefix: name}"""
    def tr(p):
        best = None
        for k, v in mapping.items():
            if p == k or p.startswith(k + "."):
                if best is None or len(k) > len(best[0]):
                    best = (k, v)
        return best[1] if best else p
    return tr


def S(t, d=8):
    return show(t, d) if t is not None else "None"


def ok_variant(ret, idx=0):
    a = Q.variant(ret, idx)
    return a


def expand_oneof(t):
    if is_t(t) and t.op == "oneof":
        out = []
        for x in t.args:
            out.extend(expand_oneof(x))
        return out
    return [t]


def ev_loc(ev):
    return "%s (%s)" % (ev["at"], ev["fn"])


INTERIOR = ("Cell<", "RefCell<", "Mutex<", "RwLock<", "Atomic", "UnsafeCell<", "OnceCell<", "Rc<", "Arc<", "*mut ", "*const ",
            "&'static mut", "LazyLock", "OnceLock")


def type_walk(ctx, adt, cfg="A", seen=None):
    """field types (transitively through workspace ADTs) of a workspace ADT: list of (owner, field, type)"""
    seen = set() if seen is None else seen
    out = []
    F = ctx.F(cfg)
    if adt in seen or adt not in F.adts:
        return out
    seen.add(adt)
    a = F.adts[adt]
    crate = a["crate"]
    for v in a["variants"]:
        for fname, fty, _ in v["fields"]:
            out.append((adt, fname, fty))
            # follow workspace types mentioned in the field type
            for other in F.adts:
                short = other.split("::", 1)[1]
                if other.startswith(crate + "::") and short.split("::")[-1] in fty.replace("<", " ").replace(">", " ").replace(",", " ").replace("(", " ").replace(")", " ").replace("&", " ").split() or short in fty:
                    out.extend(type_walk(ctx, other, cfg, seen))
    return out


def err_assign_blocks(fn):
    """blocks of fn that put an Err / None failure value into the return place"""
    out = set()
    for bi, b in enumerate(fn.blocks):
        for s in b["s"]:
            r = s.get("r")
            if s.get("l") and s["l"][0] == 0 and not s["l"][1] and r and "agg" in r and isinstance(r["agg"], dict) \
                    and r["agg"].get("vname") in ("Err",):
                out.add(bi)
        t = b["t"]
        if "call" in t and t["dest"][0] == 0 and not t["dest"][1]:
            k = t["call"].get("k") or {}
            if "from_residual" in (k.get("dname") or ""):
                out.add(bi)
    return out


def frame_chain(eng, frame_key):
    """[(frame, block-in-that-frame)] from the given frame up to the root: the call blocks"""
    out = []
    fr = eng.frames.get(frame_key)
    while fr is not None and fr.parent is not None:
        out.append((fr.parent, fr.call_block))
        fr = fr.parent
    return out


def pred_means(pred, a, rel, b, usize_bits=64):
    """does boolean term `pred` mean exactly (a rel b) over the integers?  rel in {'ge','gt','le','lt'}.
    Decided with linear entailment in both directions, so `!(x < t)`, `x >= t`, `t <= x` are the same predicate."""
    from .. import lin
    from .. import query as Q
    def goal(L, neg):
        la, lb = L.lin(a), L.lin(b)
        d = la.add(lb, -1)       # a - b
        r = rel
        if neg:
            r = {"ge": "lt", "gt": "le", "le": "gt", "lt": "ge"}[rel]
        if r == "ge":
            return d.scale(-1)                 # b - a <= 0
        if r == "gt":
            return d.scale(-1).add(lin.Lin(1))
        if r == "le":
            return d
        return d.add(lin.Lin(1))
    L1 = lin.Ctx(usize_bits)
    L1.add_fact(Q.norm_fact((pred, "eq", 1)))
    L0 = lin.Ctx(usize_bits)
    L0.add_fact(Q.norm_fact((pred, "eq", 0)))
    return lin.entails(L1, goal(L1, False)) and lin.entails(L0, goal(L0, True))


def block_in_frame(eng, ev, frame):
    """the block of `frame` under which event ev happens (ev may be in an inlined callee frame); None if unrelated"""
    fk, b = ev["frame"], ev["block"]
    while fk is not None:
        if fk == frame.key:
            return b
        fr = eng.frames.get(fk)
        if fr is None or fr.parent is None:
            return None
        fk, b = fr.parent.key, fr.call_block
    return None


def always_random(t, _depth=0):
    """every alternative value of t (through phis) contains a random atom"""
    if t.op == "phi":
        inc = PHI.get(t.args[0]) or {}
        vals = [v for v in inc.values() if v is not t]
        return bool(vals) and all(always_random(v, _depth + 1) for v in vals) if _depth < 8 else False
    return bool(Q.rngs(Q.leaves(t)))


NARROW_INTS = {"u8": 1, "i8": 1, "u16": 2, "i16": 2, "u32": 4, "i32": 4, "u64": 8, "i64": 8}


def narrow_random(t, min_bytes=16):
    """reasons why a random value provably carries fewer than `min_bytes` random bytes on some path: the random draw fills
    only a constant sub-window of an otherwise constant buffer, or a random value passes through a cast to a narrow
    integer.  Only what is decidable from the term is reported (an empty list is not a proof of full width)."""
    out = []

    def windows(b, seen):
        """the constant byte windows of buffer b that hold random data, when b is otherwise constant; None if unknown"""
        n = 0
        while is_t(b) and b.op in ("refv", "deref", "conv", "copied") and len(b.args) == 1 and n < 8:
            b = b.args[0]
            n += 1
        if not is_t(b):
            return []
        if b.id in seen:
            return []
        seen = seen | {b.id}
        if b.op == "updrng":
            base, lo, hi, val = b.args
            w = windows(base, seen)
            if w is None or not (is_t(lo) and is_t(hi) and lo.op == "int" and hi.op == "int"):
                return None
            return w + ([(lo.args[0], hi.args[0])] if Q.rngs(Q.leaves(val)) else [])
        if b.op == "field" and is_t(b.args[0]) and b.args[0].op == "phi":
            b = Q.field_of_join(b)
        if b.op == "phi":
            from ..terms import PHI
            acc = []
            for v in (PHI.get(b.args[0]) or {}).values():
                w = windows(v, seen)
                if w is None:
                    return None
                acc += w
            return acc
        if b.op == "upd":
            w0, w1 = windows(b.args[0], seen), windows(b.args[2], seen)
            return None if w0 is None or w1 is None else w0 + w1
        if b.op == "agg" and len(b.args) == 2 and is_t(b.args[1]):          # newtype around the buffer
            return windows(b.args[1], seen)
        return [] if not Q.rngs(Q.leaves(b)) else None
    for x in subterms(t):
        if x.op == "updrng" and Q.rngs(Q.leaves(x.args[3])):
            w = windows(x, frozenset())
            if w:
                covered = set()
                for lo_, hi_ in w:
                    covered |= set(range(lo_, hi_))
                if len(covered) < min_bytes:
                    out.append("only bytes %s of the decoded buffer are random (%d bytes)" % (sorted(set(w)), len(covered)))
        elif x.op == "cast" and len(x.args) >= 3 and x.args[2] in NARROW_INTS and NARROW_INTS[x.args[2]] < min_bytes and \
                Q.rngs(Q.leaves(x.args[0])):
            out.append("random value narrowed to %s" % x.args[2])
    return sorted(set(out))


def is_view_of(t, pname, _seen=None):
    """t is a contiguous, unmodified view of the parameter `pname`: the parameter itself, a sub-slice of a view, or a
    loop-carried cursor all of whose incoming values are such views (`rest = &rest[24..]`)"""
    from ..terms import PHI
    _seen = _seen or set()
    n = 0
    while is_t(t) and n < 16:
        n += 1
        if t.op in ("refv", "deref", "conv") and len(t.args) == 1:
            t = t.args[0]
        elif t.op == "slice":
            t = t.args[0]
        elif t.op == "field" and is_t(t.args[0]) and t.args[0].op == "phi":
            t = Q.field_of_join(t)
        elif t.op == "field" and is_t(t.args[0]) and t.args[0].op == "agg" and isinstance(t.args[1], int) and \
                1 + t.args[1] < len(t.args[0].args):
            t = t.args[0].args[1 + t.args[1]]
        elif t.op == "phi":
            if t.id in _seen:
                return True
            inc = list((PHI.get(t.args[0]) or {}).values())
            return bool(inc) and all(is_view_of(v, pname, _seen | {t.id}) for v in inc)
        else:
            break
    return is_t(t) and Q.path_of(t) == pname


def complete_repr(t):
    """the field element whose COMPLETE canonical byte encoding t is (to_repr output, possibly copied / collected /
    borrowed as a whole); None when t is anything else (a window of it, a padded partial copy ...)"""
    n = 0
    while is_t(t) and n < 32:
        n += 1
        if t.op in ("refv", "conv", "collected", "deref", "cloned_iter", "iter"):
            t = t.args[0]
        elif t.op == "copied" and len(t.args) >= 1:
            t = t.args[0]
        elif t.op == "as_array" and t.args[1] == 24:
            t = t.args[0]
        elif t.op == "fp_to_repr":
            return t.args[0]
        else:
            return None
    return None


def is_zero_bytes(t):
    """a constant all-zero byte string however it is written (vec![0; n], [0u8; n], b"\\0..", &[0, 0, ..])"""
    n = 0
    while is_t(t) and t.op in ("refv", "conv", "copied", "collected", "deref") and n < 8:
        t = t.args[0]
        n += 1
    if not is_t(t):
        return False
    if t.op == "from_elem":
        return is_t(t.args[0]) and t.args[0].op == "int" and t.args[0].args[0] == 0
    if t.op == "bytes":
        return set(t.args[0]) <= {"0"} and len(t.args[0]) > 0
    if t.op == "agg" and t.args[0] == "array":
        return len(t.args) > 1 and all(is_t(a) and a.op == "int" and a.args[0] == 0 for a in t.args[1:])
    return False


def role_id(t):
    """identity of a derived value among its siblings: element k of the derived vector -> ("idx", k); a PRF output whose
    transcript absorbs a distinguishing constant c (derive(0), derive(1), ...) -> ("const", c); None otherwise"""
    n = 0
    while is_t(t) and t.op in ("refv", "conv", "copied", "deref") and n < 8:
        t = t.args[0]
        n += 1
    if not is_t(t):
        return None
    if t.op == "index" and is_t(t.args[1]) and t.args[1].op == "int":
        return ("idx", t.args[1].args[0])
    if t.op == "owf":
        consts = []
        for k, d, _ in Q.flat_ops(Q.trace_of(t.args[1])):
            if k in ("ad", "meta_ad", "key") and is_t(d):
                dd = d
                while dd.op in ("refv", "conv") and len(dd.args) == 1:
                    dd = dd.args[0]
                def cint(a):
                    while is_t(a) and a.op == "cast" and is_t(a.args[0]):
                        a = a.args[0]
                    return a.args[0] if is_t(a) and a.op == "int" else None
                if dd.op == "agg" and dd.args[0] == "array" and len(dd.args) >= 2 and all(cint(a) is not None for a in dd.args[1:]):
                    consts.append(tuple(cint(a) for a in dd.args[1:]))
                elif dd.op == "int":
                    consts.append((dd.args[0],))
        if len(consts) == 1:
            return ("const", consts[0])
    return None
