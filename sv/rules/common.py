"""helpers shared by the per-property rule modules"""
from .. import query as Q
from ..check import AnchorMissing
from ..terms import PHI, Term, is_t, mk, show, subterms


def fidx(ctx, adt, name, cfg="A"):
    """index of a named field of a workspace struct (follows reordering of fields)"""
    try:
        a = ctx.F(cfg).adt(adt)
    except KeyError as e:
        raise AnchorMissing(str(e))
    for i, f in enumerate(a["variants"][0]["fields"]):
        if f[0] == name:
            return i
    raise AnchorMissing("field %s of %s" % (name, adt))


def fields(ctx, adt, cfg="A"):
    try:
        a = ctx.F(cfg).adt(adt)
    except KeyError as e:
        raise AnchorMissing(str(e))
    return [(f[0], f[1], f[2]) for f in a["variants"][0]["fields"]]


def pnames(ctx, root, mapping):
    """translate param paths like 'self.2' to readable names using `mapping` {path-prefix: name}"""
    def tr(p):
        best = None
        for k, v in mapping.items():
            if p == k or p.startswith(k + "."):
                if best is None or len(k) > len(best[0]):
                    best = (k, v)
        return best[1] if best else p
    return tr


def S(t, d=8):
    return show(t, d) if t is not None else "None"


def ok_variant(ret, idx=0):
    a = Q.variant(ret, idx)
    return a


def expand_oneof(t):
    if is_t(t) and t.op == "oneof":
        out = []
        for x in t.args:
            out.extend(expand_oneof(x))
        return out
    return [t]


def ev_loc(ev):
    return "%s (%s)" % (ev["at"], ev["fn"])
