"""C11 - forward security: a punctured key retains nothing that evaluates punctured tags."""
from .. import query as Q
from ..terms import PHI, Term
from .common import S, fidx, fields, ok_variant
from .c02 import raw_nodes
from . import c10

EXPLANATION = (
    "Decided statically: (R1) the root secret sampled in GGMPuncturableKey::new and the secrets sampled in "
    "GGMPseudorandomGenerator::setup are not contained in the clear in the returned key - they enter it only as "
    "inputs of the Strobe PRG; (R2, must-pass-through) on the final key state of GGM::puncture narrowed to its Ok "
    "alternative, `prefixes` is the initial set with the covering node removed (Vec::remove at the position the prefix "
    "lookup returned or at the position of the element whose bits equal the found prefix, whichever function performs "
    "it) and afterwards only extended - a "
    "black-list-only implementation that keeps ancestor seeds fails this for every history, and every Ok of "
    "Server::puncture is the Ok of that key-level puncture applied to the given tag; (R3) in GGM::puncture "
    "the covering seed reaches the elements added to `prefixes` only through the output of the bitwise PRG descent "
    "(bit_eval, declared one-way under the stated assumption that it runs over >= 1 bit there); (R4, feature "
    "key-sync) the exported state borrows exactly the live oprf key, public key and puncturable key, import "
    "replaces all three unconditionally with the imported values, and the owned / borrowed state structs have the "
    "same field table (bincode is positional); (R5) no field other than `prefixes` receives seeds on the "
    "eval/puncture paths (writers inventory).  NOT decided: that the re-added nodes are exactly the off-path "
    "siblings (needs the algorithm's correctness), zeroisation of freed memory.")
ASSUMPTIONS = ["the bitwise PRG descent runs over at least one bit in GGM::puncture (sibling depth > covering prefix length)"]
TRUSTED = []

KEY = "ppoprf::ggm::GGMPuncturableKey"
KPUNC = "ppoprf::ggm::GGMPuncturableKey::puncture"


class _Outer:
    """a caller that does not exist: lets the engine narrow the root's final state to one alternative of its result"""
    key = "<outer>"


def _alternatives(v, depth=0):
    """the values a (non-loop) join stands for"""
    if Q.is_t(v) and v.op == "phi" and depth < 8 and not Q.is_loop_acc(v):
        out = []
        for x in (PHI.get(v.args[0]) or {}).values():
            out += _alternatives(x, depth + 1)
        return list({x.id: x for x in out}.values())
    return [v]


def final_prefixes_on_ok(ctx, eng, ret, st, cfg="A"):
    """the values `self.key.prefixes` may have when GGM::puncture returns Ok (final state narrowed to the Ok alternative)"""
    from ..sym import field as sym_field
    ik = fidx(ctx, c10.GGM, "key", cfg)
    ipf = fidx(ctx, KEY, "prefixes", cfg)
    okv = Q.variant(ret, 0)
    selfv = None
    if okv is not None and st is not None:
        st_ok = eng.refine_state(_Outer, st, ret, {0})
        selfv = st_ok.get(("param", "self"))
    if selfv is None:
        return None

    def expand(t, depth=0):
        """the values t may stand for, with field projections pushed through (non-loop) joins"""
        if not Q.is_t(t) or depth > 8:
            return [t]
        if t.op == "phi":
            al = _alternatives(t)
            if len(al) == 1 and al[0] is t:
                return [t]
            out = []
            for x in al:
                out += expand(x, depth + 1)
            return list({x.id: x for x in out}.values())
        if t.op == "field":
            inner = expand(t.args[0], depth + 1)
            if len(inner) == 1 and inner[0] is t.args[0]:
                return [t]
            out = []
            for x in inner:
                out += expand(sym_field(x, t.args[1]), depth + 1)
            return list({x.id: x for x in out}.values())
        return [t]

    def project(v, n):
        out = []
        for a in expand(v):
            out += expand(sym_field(a, n))
        return list({x.id: x for x in out}.values())
    finals = []
    for k_ in project(selfv, ik):
        finals += project(k_, ipf)
    return list({x.id: x for x in finals}.values())


def covering_removed(ctx, rule, cfg="A"):
    """on every path on which the public GGM puncture reports success, the retained node set it leaves behind is the
    initial set with the covering node REMOVED (then possibly extended by the co-path): decided on the final state of
    `self.key.prefixes` narrowed to the Ok alternative, whichever function performs the removal"""
    from ..sym import field as sym_field
    root = c10.PUNC
    eng, ret, st, fr = ctx.root(root, cfg)
    at = ctx.fn(root, cfg).loc
    ik = fidx(ctx, c10.GGM, "key", cfg)
    ipf = fidx(ctx, KEY, "prefixes", cfg)
    want = "self.%d.%d" % (ik, ipf)
    finals = final_prefixes_on_ok(ctx, eng, ret, st, cfg)
    if finals is None:
        ctx.add(rule, root + "#removes-covering-node", False, "GGM::puncture has no Ok alternative or no final key state", at)
        return
    removals, kept = [], []
    for f in finals:
        t, n = f, 0
        while Q.is_t(t) and t.op in ("append", "push", "inserted") and n < 8:
            t = t.args[0]
            n += 1
            if t.op == "phi" and not Q.is_loop_acc(t):
                break
        if Q.is_t(t) and t.op == "removed" and Q.path_of(t.args[0]) == want:
            removals.append(t)
        else:
            kept.append(S(f, 4))
    rm_at = [e["at"] for e in Q.calls(eng, "Vec::<T, A>::remove")]
    ctx.add(rule, root + "#removes-covering-node", bool(removals) and not kept,
            "every successful puncture must leave `prefixes` with the covering node removed; final values on success "
            "without a removal from the initial set: %s" % kept, rm_at[0] if rm_at else at,
            sample={"remove_at": rm_at, "final_prefixes_on_ok": [S(f, 4) for f in finals]})
    if not removals:
        return
    # the removed position is that of the covering node: the position the lookup itself returned, or the position of the
    # element whose bits equal the bits of the node the lookup returned
    fp = Q.calls(eng, "GGMPuncturableKey::find_prefix")
    okp = Q.variant(fp[0]["result"], 0) if len(fp) == 1 else None
    P = okp[2][0] if okp and okp[2] else None
    okidx = P is not None
    shown = []
    for r in removals:
        idx = c10._strip(r.args[1])
        shown.append(S(idx, 5))
        if P is None:
            break
        if idx is c10._strip(P) and idx.op == "iter_position":
            continue
        node = c10.covering_node(P)
        pfx_ = sym_field(node, 0)            # the found Prefix (its derived PartialEq compares the bits)
        bits = sym_field(pfx_, 0)
        src = idx.args[0] if idx.op == "iter_position" else None
        while src is not None and src.op in ("iter", "cloned_iter", "refv") and src.args:
            src = src.args[0]
        pred = idx.args[1] if idx.op == "iter_position" else None
        if not (src is not None and Q.path_of(src) == want and pred is not None and pred.op == "eq" and
                any(c10._strip(x) is bits or c10._strip(x) is pfx_ for x in pred.args) and
                any(Q.contains(x, lambda z: z.op == "elem") and c10._strip(x) is not bits and c10._strip(x) is not pfx_ for x in pred.args)):
            okidx = False
    ctx.add(rule, root + "#removed-is-covering-prefix", okidx,
            "the removed element must be the covering node (the position the prefix lookup returned, or the position of the "
            "element whose bits equal the found prefix); index term(s) %s" % shown, rm_at[0] if rm_at else at, sample=shown)


def server_puncture_passes_through(ctx, rule):
    """Server::puncture may report success only as the success of the puncturable key's own puncture of exactly the
    given tag: a success produced anywhere else leaves the covering node in the key (shared with C14)"""
    root = "ppoprf::ppoprf::Server::puncture"
    eng, ret, st, fr = ctx.root(root)
    at = ctx.fn(root).loc
    pc = [e for e in Q.calls(eng, "PPRF>::puncture") if e["home"] == fr.key]
    okv = Q.variant(ret, 0)
    ok = len(pc) == 1 and okv is not None
    det = "%d key-level puncture call(s)" % len(pc)
    if ok:
        inp = pc[0]["argv"][1]
        tag_ok = Q.params(Q.leaves(inp)) == {"md"}
        pre = fr.key + "/%s@" % pc[0]["block"]
        outside = sorted(str(o) for o in okv[4] if not str(o[0]).startswith(pre))
        ok = tag_ok and not outside and bool(okv[4])
        det = "punctured input depends on %s; success produced outside the key-level puncture at %s" % (sorted(Q.params(Q.leaves(inp))), outside)
    ctx.add(rule, root + "#success-only-from-key-puncture", ok,
            "every Ok of Server::puncture must be the Ok of the puncturable key's puncture of the given tag (%s)" % det, at, sample=det)


def run(ctx):
    # ---- R1 root secret not stored --------------------------------------------------------------------------
    root = "ppoprf::ggm::GGMPuncturableKey::new"
    eng, ret, st, fr = ctx.root(root)
    at = ctx.fn(root).loc
    allr = Q.rngs(Q.leaves(ret))
    clear = Q.rngs(Q.atoms(ret, stop_ops={"owf"}))
    ctx.add("C11.R1", root + "#sampled-secrets-not-stored", len(allr) >= 3 and not clear,
            "secrets sampled while creating the key must not be stored in the clear: %d sampled, %d stored raw (%s)"
            % (len(allr), len(clear), sorted(map(str, clear))), at,
            sample={"sampled": sorted(r[2].split("/", 1)[-1] for r in allr), "stored_raw": len(clear)})
    # the two initial seeds are PRG outputs of the root secret
    ipf = fidx(ctx, KEY, "prefixes")
    pf = ret.args[1 + ipf] if ret is not None and ret.op == "agg" else None
    seeds = []
    if pf is not None and pf.op == "agg":
        for el in pf.args[1:]:
            if el.op == "agg" and len(el.args) == 3:
                seeds.append(el.args[2])
    ctx.add("C11.R1", root + "#initial-seeds-are-prg-outputs", len(seeds) == 2 and all(s.op == "owf" for s in seeds),
            "the two initial tree nodes must hold PRG outputs; found %s" % [S(s, 2) for s in seeds], at)
    c10.initial_nodes(ctx, "C11.R1")
    ctx.floor("C11.R1", 4)

    # ---- R2 covering node removed ----------------------------------------------------------------------------
    covering_removed(ctx, "C11.R2")
    server_puncture_passes_through(ctx, "C11.R2")
    ctx.floor("C11.R2", 3)

    # ---- R3 seed re-entry only through the PRG ----------------------------------------------------------------
    root = c10.PUNC
    eng, ret, st, fr = ctx.root(root)
    at = ctx.fn(root).loc
    fp = Q.calls(eng, "GGMPuncturableKey::find_prefix")
    finals = final_prefixes_on_ok(ctx, eng, ret, st, "A")
    ds = c10.prg_descents(eng)
    if len(fp) == 1 and finals and Q.variant(fp[0]["result"], 0):
        from ..sym import field
        P = c10.covering_node(Q.variant(fp[0]["result"], 0)[2][0])
        seed = field(P, 1)
        # what a successful puncture adds to the retained set
        newp = []
        for f in finals:
            t, n = f, 0
            while Q.is_t(t) and t.op in ("append", "push", "inserted") and n < 8:
                newp += list(t.args[1:])
                t = t.args[0]
                n += 1
        # the accumulators of the bitwise PRG descents are declared one-way (their value is a generator output)
        accs = {c10._strip(e["argv"][1]).id for e, init, _, _ in ds if init is not None}

        def nodes_decl(ts):
            seen = set()
            stack = list(ts)
            while stack:
                x = stack.pop()
                if isinstance(x, (tuple, frozenset, list)):
                    stack.extend(x)
                    continue
                if not isinstance(x, Term) or x.id in seen:
                    continue
                seen.add(x.id)
                if x.op == "owf":
                    continue
                if x.op == "phi":
                    if x.id in accs:
                        continue    # declared one-way: output of the bitwise PRG descent
                    inc = PHI.get(x.args[0])
                    if inc:
                        stack.extend(inc.values())
                    continue
                stack.extend(Q.raw_children(x))
            return seen
        ctx.add("C11.R3", root + "#covering-seed-only-through-prg", bool(newp) and seed.id not in nodes_decl(newp),
                "the covering node's seed flows into the re-added nodes outside the PRG descent", ds[0][0]["at"] if ds else at,
                sample={"new_nodes": [S(x, 3) for x in newp]})
        # the re-added seeds are descent outputs computed from the covering seed
        ctx.add("C11.R3", root + "#new-seeds-are-descent-outputs", bool(ds) and all(init is seed for _, init, _, _ in ds),
                "sibling seeds must be derived by the bitwise PRG descent from the covering seed", at)
    else:
        ctx.add("C11.R3", root + "#shape", False, "expected one prefix lookup and a successful key update in GGM::puncture", at)
    ctx.floor("C11.R3", 2)

    # ---- R4 export / import (cfg B) ---------------------------------------------------------------------------
    export_import(ctx, "C11.R4")
    ctx.floor("C11.R4", 6)

    # ---- R5 retention inventory --------------------------------------------------------------------------------
    c10.writers(ctx, "C11.R5", "B")
    ctx.floor("C11.R5", 6)


def export_import(ctx, rule):
    cfg = "B"
    SRV = "ppoprf::ppoprf::Server"
    ST, STR = "ppoprf::ppoprf::ServerKeyState", "ppoprf::ppoprf::ServerKeyStateRef"
    fs, fr_ = fields(ctx, ST, cfg), fields(ctx, STR, cfg)
    same = [(a[0], a[1].replace("&'a ", "")) for a in fr_] == [(a[0], a[1]) for a in fs]
    at = ctx.F(cfg).adt(STR)["loc"]
    ctx.add(rule, "ServerKeyState~ServerKeyStateRef#field-table", same,
            "owned and borrowed key-state structs must have the same fields in the same order (bincode is positional): %s vs %s"
            % ([(a[0], a[1]) for a in fs], [(a[0], a[1]) for a in fr_]), at, sample=[a[0] for a in fs])
    # export borrows the live fields
    root = "ppoprf::ppoprf::Server::get_private_key"
    eng, ret, st, fr = ctx.root(root, cfg)
    at = ctx.fn(root, cfg).loc
    want = {"oprf_key": "self.%d" % fidx(ctx, SRV, "oprf_key", cfg), "public_key": "self.%d" % fidx(ctx, SRV, "public_key", cfg),
            "ggm_key": "self.%d.%d" % (fidx(ctx, SRV, "pprf", cfg), fidx(ctx, "ppoprf::ggm::GGM", "key", cfg))}
    okx = ret is not None and ret.op == "agg"
    got = {}
    if okx:
        for i, (fname, _, _) in enumerate(fr_):
            v = ret.args[1 + i]
            # borrowed: ref into the self pointee
            if v.op == "ref" and v.args[0] == ("param", "self"):
                got[fname] = "self" + "".join(".%d" % e[1] for e in v.args[1])
            else:
                got[fname] = S(v, 3)
    ctx.add(rule, root + "#exports-live-state", okx and got == want,
            "the exported state must borrow the server's live oprf key, public key and puncturable key; found %s" % got, at, sample=got)
    # import replaces all three, unconditionally, with the imported values
    root = "ppoprf::ppoprf::Server::set_private_key"
    eng, ret, st, fr = ctx.root(root, cfg)
    at = ctx.fn(root, cfg).loc
    final = st.get(("param", "self")) if st else None
    from ..sym import field
    for fname, spath in (("oprf_key", ("oprf_key",)), ("public_key", ("public_key",)), ("ggm_key", ("pprf", "key"))):
        v = final
        adt = SRV
        for nm in spath:
            v = field(v, fidx(ctx, adt, nm, cfg))
            adt = "ppoprf::ggm::GGM"
        src = Q.path_of(v)
        wantp = "private_key.%d" % [a[0] for a in fs].index(fname)
        ctx.add(rule, root + "#import-replaces:" + fname, src == wantp,
                "after import the server's %s must be exactly the imported value on every path; found %s" % (fname, S(v, 4)), at,
                sample=S(v, 3))
    ws = [k for k in eng.param_writes if k[2] == ("param", "self")]
    cond = [k for k in ws if Q.closure(eng, eng.facts_at(k[0], k[1]))]
    ctx.add(rule, root + "#import-unconditional", len(ws) >= 3 and not cond,
            "import must replace the state unconditionally; conditional writes: %s" % [(k[1], [Q.show_fact(f, 3) for f in Q.closure(eng, eng.facts_at(k[0], k[1]))]) for k in cond], at)
