"""C11 - forward security: a punctured key retains nothing that evaluates punctured tags."""
from .. import query as Q
from ..terms import PHI, Term
from .common import S, fidx, fields, ok_variant
from .c02 import raw_nodes
from . import c10

EXPLANATION = (
    "Decided statically: (R1) the root secret sampled in GGMPuncturableKey::new and the secrets sampled in "
    "GGMPseudorandomGenerator::setup are not contained in the clear in the returned key - they enter it only as "
    "inputs of the Strobe PRG; (R2, must-pass-through) every Ok of GGMPuncturableKey::puncture is dominated by the "
    "removal (Vec::remove) of the element of `prefixes` located by the lookup on the covering prefix - a "
    "black-list-only implementation that keeps ancestor seeds fails this for every history, and every Ok of "
    "Server::puncture is the Ok of that key-level puncture applied to the given tag; (R3) in GGM::puncture "
    "the covering seed reaches the elements added to `prefixes` only through the output of the bitwise PRG descent "
    "(bit_eval, declared one-way under the stated assumption that it runs over >= 1 bit there); (R4, feature "
    "key-sync) the exported state borrows exactly the live oprf key, public key and puncturable key, import "
    "replaces all three unconditionally with the imported values, and the owned / borrowed state structs have the "
    "same field table (bincode is positional); (R5) no field other than `prefixes` receives seeds on the "
    "eval/puncture paths (writers inventory).  NOT decided: that the re-added nodes are exactly the off-path "
    "siblings (needs the algorithm's correctness), zeroisation of freed memory.")
ASSUMPTIONS = ["GGM::bit_eval is called with at least one bit in GGM::puncture (sibling depth > covering prefix length)"]
TRUSTED = []

KEY = "ppoprf::ggm::GGMPuncturableKey"
KPUNC = "ppoprf::ggm::GGMPuncturableKey::puncture"


def covering_removed(ctx, rule, cfg="A"):
    eng, ret, st, fr = ctx.root(KPUNC, cfg)
    at = ctx.fn(KPUNC, cfg).loc
    ipf = fidx(ctx, KEY, "prefixes", cfg)
    okv = Q.variant(ret, 0)
    rem = [e for e in Q.calls(eng, "Vec::<T, A>::remove", in_fn=KPUNC)
           if Q.path_of(e["argv"][0]) == "self.%d" % ipf]
    if not rem or okv is None:
        ctx.add(rule, KPUNC + "#removes-covering-node", False,
                "GGMPuncturableKey::puncture has no removal from `prefixes` (found %d) or no Ok" % len(rem), at)
        return
    cfg_ = fr.cfg
    ok_blocks = [Q.origin_block(b) for (fk, b) in okv[4] if fk == fr.key]
    dom = bool(ok_blocks) and all(any(cfg_.dominates(r["home_block"], b) for r in rem) for b in ok_blocks)
    ctx.add(rule, KPUNC + "#removes-covering-node", dom,
            "every successful puncture must pass through the removal of the covering node from `prefixes`; the removal at %s "
            "does not dominate the Ok at bb%s" % ([r["at"] for r in rem], ok_blocks), rem[0]["at"],
            sample={"remove_at": [r["at"] for r in rem]})
    # the removed index is the position of the element whose bits equal the covering prefix's bits
    idx = rem[0]["argv"][1]
    okidx = idx.op == "iter_position" and Q.path_of(idx.args[0].args[0] if idx.args[0].op == "iter" else idx.args[0]) == "self.%d" % ipf \
        and idx.args[1].op == "eq" and ({"pfx.0"} <= Q.params(Q.leaves(idx.args[1])) or {"pfx"} <= Q.params(Q.leaves(idx.args[1])))
    ctx.add(rule, KPUNC + "#removed-is-covering-prefix", okidx,
            "the removed element must be the one whose bits equal the covering prefix; index term %s" % S(idx, 5), rem[0]["at"],
            sample=S(idx, 5))


def server_puncture_passes_through(ctx, rule):
    """Server::puncture may report success only as the success of the puncturable key's own puncture of exactly the
    given tag: a success produced anywhere else leaves the covering node in the key (shared with C14)"""
    root = "ppoprf::ppoprf::Server::puncture"
    eng, ret, st, fr = ctx.root(root)
    at = ctx.fn(root).loc
    pc = [e for e in Q.calls(eng, "PPRF>::puncture") if e["home"] == fr.key]
    okv = Q.variant(ret, 0)
    ok = len(pc) == 1 and okv is not None
    det = "%d key-level puncture call(s)" % len(pc)
    if ok:
        inp = pc[0]["argv"][1]
        tag_ok = Q.params(Q.leaves(inp)) == {"md"}
        pre = fr.key + "/%s@" % pc[0]["block"]
        outside = sorted(str(o) for o in okv[4] if not str(o[0]).startswith(pre))
        ok = tag_ok and not outside and bool(okv[4])
        det = "punctured input depends on %s; success produced outside the key-level puncture at %s" % (sorted(Q.params(Q.leaves(inp))), outside)
    ctx.add(rule, root + "#success-only-from-key-puncture", ok,
            "every Ok of Server::puncture must be the Ok of the puncturable key's puncture of the given tag (%s)" % det, at, sample=det)


def run(ctx):
    # ---- R1 root secret not stored --------------------------------------------------------------------------
    root = "ppoprf::ggm::GGMPuncturableKey::new"
    eng, ret, st, fr = ctx.root(root)
    at = ctx.fn(root).loc
    allr = Q.rngs(Q.leaves(ret))
    clear = Q.rngs(Q.atoms(ret, stop_ops={"owf"}))
    ctx.add("C11.R1", root + "#sampled-secrets-not-stored", len(allr) >= 3 and not clear,
            "secrets sampled while creating the key must not be stored in the clear: %d sampled, %d stored raw (%s)"
            % (len(allr), len(clear), sorted(map(str, clear))), at,
            sample={"sampled": sorted(r[2].split("/", 1)[-1] for r in allr), "stored_raw": len(clear)})
    # the two initial seeds are PRG outputs of the root secret
    ipf = fidx(ctx, KEY, "prefixes")
    pf = ret.args[1 + ipf] if ret is not None and ret.op == "agg" else None
    seeds = []
    if pf is not None and pf.op == "agg":
        for el in pf.args[1:]:
            if el.op == "agg" and len(el.args) == 3:
                seeds.append(el.args[2])
    ctx.add("C11.R1", root + "#initial-seeds-are-prg-outputs", len(seeds) == 2 and all(s.op == "owf" for s in seeds),
            "the two initial tree nodes must hold PRG outputs; found %s" % [S(s, 2) for s in seeds], at)
    c10.initial_nodes(ctx, "C11.R1")
    ctx.floor("C11.R1", 4)

    # ---- R2 covering node removed ----------------------------------------------------------------------------
    covering_removed(ctx, "C11.R2")
    server_puncture_passes_through(ctx, "C11.R2")
    ctx.floor("C11.R2", 3)

    # ---- R3 seed re-entry only through the PRG ----------------------------------------------------------------
    root = c10.PUNC
    eng, ret, st, fr = ctx.root(root)
    at = ctx.fn(root).loc
    fp = Q.calls(eng, "GGMPuncturableKey::find_prefix")
    kp = Q.calls(eng, KPUNC)
    if len(fp) == 1 and len(kp) == 1 and Q.variant(fp[0]["result"], 0):
        from ..sym import field
        P = c10.covering_node(Q.variant(fp[0]["result"], 0)[2][0])
        seed = field(P, 1)
        newp = kp[0]["argv"][3]

        def nodes_decl(t):
            seen = set()
            stack = [t]
            while stack:
                x = stack.pop()
                if isinstance(x, (tuple, frozenset, list)):
                    stack.extend(x)
                    continue
                if not isinstance(x, Term) or x.id in seen:
                    continue
                seen.add(x.id)
                if x.op == "owf":
                    continue
                if x.op == "phi":
                    k = x.args[0]
                    if "bit_eval" in str(k[0]) or (len(k) > 2 and "bit_eval" in str(k[2])):
                        continue    # declared one-way: output of the bitwise PRG descent
                    inc = PHI.get(k)
                    if inc:
                        stack.extend(inc.values())
                    continue
                stack.extend(Q.raw_children(x))
            return seen
        ctx.add("C11.R3", root + "#covering-seed-only-through-prg", seed.id not in nodes_decl(newp),
                "the covering node's seed flows into the re-added nodes outside the PRG descent", kp[0]["at"],
                sample={"new_nodes": S(newp, 3)})
        # the re-added seeds are bit_eval outputs
        be = Q.calls(eng, "GGM::bit_eval")
        ctx.add("C11.R3", root + "#new-seeds-are-descent-outputs", bool(be) and all(e["argv"][2] is seed for e in be),
                "sibling seeds must be derived by bit_eval from the covering seed", at)
    else:
        ctx.add("C11.R3", root + "#shape", False, "expected one find_prefix and one key.puncture call", at)
    ctx.floor("C11.R3", 2)

    # ---- R4 export / import (cfg B) ---------------------------------------------------------------------------
    export_import(ctx, "C11.R4")
    ctx.floor("C11.R4", 6)

    # ---- R5 retention inventory --------------------------------------------------------------------------------
    c10.writers(ctx, "C11.R5", "B")
    ctx.floor("C11.R5", 6)


def export_import(ctx, rule):
    cfg = "B"
    SRV = "ppoprf::ppoprf::Server"
    ST, STR = "ppoprf::ppoprf::ServerKeyState", "ppoprf::ppoprf::ServerKeyStateRef"
    fs, fr_ = fields(ctx, ST, cfg), fields(ctx, STR, cfg)
    same = [(a[0], a[1].replace("&'a ", "")) for a in fr_] == [(a[0], a[1]) for a in fs]
    at = ctx.F(cfg).adt(STR)["loc"]
    ctx.add(rule, "ServerKeyState~ServerKeyStateRef#field-table", same,
            "owned and borrowed key-state structs must have the same fields in the same order (bincode is positional): %s vs %s"
            % ([(a[0], a[1]) for a in fs], [(a[0], a[1]) for a in fr_]), at, sample=[a[0] for a in fs])
    # export borrows the live fields
    root = "ppoprf::ppoprf::Server::get_private_key"
    eng, ret, st, fr = ctx.root(root, cfg)
    at = ctx.fn(root, cfg).loc
    want = {"oprf_key": "self.%d" % fidx(ctx, SRV, "oprf_key", cfg), "public_key": "self.%d" % fidx(ctx, SRV, "public_key", cfg),
            "ggm_key": "self.%d.%d" % (fidx(ctx, SRV, "pprf", cfg), fidx(ctx, "ppoprf::ggm::GGM", "key", cfg))}
    okx = ret is not None and ret.op == "agg"
    got = {}
    if okx:
        for i, (fname, _, _) in enumerate(fr_):
            v = ret.args[1 + i]
            # borrowed: ref into the self pointee
            if v.op == "ref" and v.args[0] == ("param", "self"):
                got[fname] = "self" + "".join(".%d" % e[1] for e in v.args[1])
            else:
                got[fname] = S(v, 3)
    ctx.add(rule, root + "#exports-live-state", okx and got == want,
            "the exported state must borrow the server's live oprf key, public key and puncturable key; found %s" % got, at, sample=got)
    # import replaces all three, unconditionally, with the imported values
    root = "ppoprf::ppoprf::Server::set_private_key"
    eng, ret, st, fr = ctx.root(root, cfg)
    at = ctx.fn(root, cfg).loc
    final = st.get(("param", "self")) if st else None
    from ..sym import field
    for fname, spath in (("oprf_key", ("oprf_key",)), ("public_key", ("public_key",)), ("ggm_key", ("pprf", "key"))):
        v = final
        adt = SRV
        for nm in spath:
            v = field(v, fidx(ctx, adt, nm, cfg))
            adt = "ppoprf::ggm::GGM"
        src = Q.path_of(v)
        wantp = "private_key.%d" % [a[0] for a in fs].index(fname)
        ctx.add(rule, root + "#import-replaces:" + fname, src == wantp,
                "after import the server's %s must be exactly the imported value on every path; found %s" % (fname, S(v, 4)), at,
                sample=S(v, 3))
    ws = [k for k in eng.param_writes if k[2] == ("param", "self")]
    cond = [k for k in ws if Q.closure(eng, eng.facts_at(k[0], k[1]))]
    ctx.add(rule, root + "#import-unconditional", len(ws) >= 3 and not cond,
            "import must replace the state unconditionally; conditional writes: %s" % [(k[1], [Q.show_fact(f, 3) for f in Q.closure(eng, eng.facts_at(k[0], k[1]))]) for k in cond], at)
