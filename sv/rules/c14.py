"""C14 - randomness server answers iff tag registered and unpunctured, under any history."""
from .. import query as Q
from .common import INTERIOR, S, fidx, ok_variant, type_walk
from . import c10, c11

EXPLANATION = (
    "Decided statically: (R1, who-may-write) the server's oprf key and public key are written only by Server::new "
    "(and by import under key-sync), the puncturable key only by new / puncture / import - hence the public key "
    "is constant over any eval/puncture history and eval cannot change state; (R2) Server::eval answers only "
    "when the tag is present in the public key map (BadTag otherwise), the PRF error of a punctured tag is "
    "propagated, Server::new registers exactly the given tags, and every Ok of Server::puncture is the Ok of the "
    "key-level puncture of the given tag, which removes the covering node on every Ok path (C11.R2); (R3) the answer contains no random atom: it is "
    "a function of (state, point, tag) (proof nonce excluded); (R4) export/import field tables agree and import "
    "replaces the whole state with the imported values unconditionally (C11.R4 re-run under feature key-sync); "
    "(R5) Server and everything it contains derive Clone over types without shared ownership or interior "
    "mutability, so clones evolve independently; (R6) PRF values are derived from the covering node over the bits "
    "after its prefix (C10.R4), so puncturing one tag cannot re-key another.  NOT decided: the iff over arbitrary "
    "interleavings (needs C10's undecided part), indistinguishability of restored servers as a behavioural "
    "equivalence.")
ASSUMPTIONS = ["derive(Clone) clones field-wise; BTreeMap::get/insert behave as documented"]
TRUSTED = []

P = "ppoprf::ppoprf::"
SRV = "ppoprf::ppoprf::Server"


def run(ctx):
    c10.writers(ctx, "C14.R1", "A")
    c10.writers(ctx, "C14.R1", "B")
    ctx.floor("C14.R1", 12)
    c11.server_puncture_passes_through(ctx, "C14.R2")
    c11.covering_removed(ctx, "C14.R2")
    # eval takes &self and writes nothing
    root = P + "Server::eval"
    eng, ret, st, fr = ctx.root(root)
    fe = ctx.fn(root)
    at = fe.loc
    w = [k for k in eng.param_writes if k[2] == ("param", "self")]
    ctx.add("C14.R1", root + "#read-only", fe.locals[1].startswith("&") and not fe.locals[1].startswith("&mut") and not w,
            "Server::eval must not be able to change server state (self: %s, writes: %s)" % (fe.locals[1], w), at)

    # ---- R2 answer gate ---------------------------------------------------------------------------------------
    fs = Q.facts_of_variant(eng, ret, 0) or set()
    ipk = fidx(ctx, SRV, "public_key")
    reg = [t for t, rel, v in fs if t.op == "map_has" and rel == "eq" and v == 1 and
           Q.params(Q.leaves(t.args[0])) and all(p.startswith("self.%d" % ipk) for p in Q.params(Q.leaves(t.args[0]))) and Q.path_of(t.args[1]) == "md"]
    ctx.add("C14.R2", root + "#registered-tag-required", bool(reg),
            "an answer must require the tag to be present in the server's public key map", at,
            sample=[S(t, 4) for t in reg])
    prf = [e for e in Q.calls(eng, "PPRF>::eval")]
    okprop = False
    if len(prf) == 1 and prf[0]["result"] is not None:
        # Ok of Server::eval requires Ok of the PRF evaluation
        r = prf[0]["result"]
        okprop = any(t.op == "discr" and rel == "eq" and v == 0 and Q.variant(t.args[0], 0) is not None and
                     Q.variant(t.args[0], 0)[2] == (Q.variant(r, 0)[2] if Q.variant(r, 0) else None) for t, rel, v in fs) or \
            any(t.op == "discr" and t.args[0].op == "enum" and t.args[0].args[0].endswith("ControlFlow") and rel == "eq" and v == 0 and
                any("NoPrefixFound" in S(a, 6) for a in t.args[0].args[1]) for t, rel, v in fs)
    ctx.add("C14.R2", root + "#prf-error-propagated", okprop,
            "an answer must require the puncturable PRF evaluation to have succeeded (a punctured tag must fail)", at)
    # the registration test precedes the PRF evaluation
    cfg = fr.cfg
    from .common import block_in_frame
    okorder = False
    if prf:
        # the PRF evaluation is reached only where the tag is known to be registered
        fp = Q.closure(eng, eng.facts_at(prf[0]["frame"], prf[0]["block"]))
        okorder = any(t.op == "map_has" and rel == "eq" and v == 1 and Q.params(Q.leaves(t.args[0])) and
                      all(p.startswith("self.%d" % ipk) for p in Q.params(Q.leaves(t.args[0]))) and Q.path_of(t.args[1]) == "md"
                      for t, rel, v in fp)
    ctx.add("C14.R2", root + "#registration-check-first", okorder, "the registration check must dominate the PRF evaluation", at)
    # new registers exactly the given tags
    rootn = P + "Server::new"
    engn, retn, stn, frn = ctx.root(rootn)
    atn = ctx.fn(rootn).loc
    # the registered map has exactly one entry per element of `mds`, keyed by that element: either one insert per
    # iteration of a loop over all of mds, or mds.iter().map(|md| (md, ..)).collect() into the map
    okreg = False
    found = "?"
    okn_ = ok_variant(retn, 0)
    mdv = None
    if okn_ is not None and okn_[2][0].op == "agg":
        pk_ = okn_[2][0].args[1 + ipk]
        if pk_.op == "agg":
            mdv = pk_.args[1 + fidx(ctx, "ppoprf::ppoprf::ServerPublicKey", "md_pks")]
    if mdv is not None and mdv.op == "phi":
        from ..terms import PHI
        inc = list((PHI.get(mdv.args[0]) or {}).values())
        news = [v for v in inc if v.op == "coll_new"]
        insv = [v for v in inc if v.op == "map_insert" and v.args[0] is mdv]
        if len(news) == 1 and len(insv) == 1 and len(inc) == 2:
            keyt = insv[0].args[1]
            kel = Q.find_all(keyt, lambda t: t.op == "elem")
            src = Q.traversal_of(engn, kel[0]) if len(kel) == 1 else None
            okreg = src is not None and Q.path_of(src) == "mds" and Q.params(Q.leaves(keyt)) == {"mds.*"}
            found = "insert per iteration, key %s" % S(keyt, 3)
    elif mdv is not None and mdv.op == "collected" and mdv.args[0].op == "mapped":
        pair = mdv.args[0].args[1]
        src = Q.whole_of(mdv.args[0].args[0], engn)
        okreg = pair.op == "agg" and pair.args[0] == "tuple" and len(pair.args) == 3 and \
            Q.params(Q.leaves(pair.args[1])) == {"mds.*"} and src is not None and Q.path_of(src) == "mds"
        found = "collected pairs, key %s" % S(pair.args[1] if pair.op == "agg" else pair, 3)
    ctx.add("C14.R2", rootn + "#registers-given-tags", okreg,
            "Server::new must register one public key entry per given tag, keyed by that tag; found %s" % found, atn)
    okn = ok_variant(retn, 0)
    if okn is not None and okn[2][0].op == "agg":
        srv = okn[2][0]
        pk = srv.args[1 + ipk]
        base = pk.args[1] if pk.op == "agg" else None
        ok_k = srv.args[1 + fidx(ctx, SRV, "oprf_key")]
        okb = base is not None and Q.contains(base, lambda t: t is ok_k) and bool(Q.rngs(Q.leaves(ok_k)))
        ctx.add("C14.R2", rootn + "#base-key-commits-to-oprf-key", okb,
                "the base public key must be computed from the freshly drawn oprf key", atn)
    ctx.floor("C14.R2", 8)

    # ---- R3 deterministic answer ----------------------------------------------------------------------------
    okv = ok_variant(ret, 0)
    if okv is not None:
        out = okv[2][0].args[1 + fidx(ctx, "ppoprf::ppoprf::Evaluation", "output")]
        rn = Q.rngs(Q.leaves_cd(eng, out))
        ctx.add("C14.R3", root + "#answer-has-no-random-atom", not rn,
                "the evaluation output must be a function of (state, point, tag); random atoms %s" % sorted(map(str, rn)), at)
    ctx.floor("C14.R3", 1)

    # ---- R4 export / import ----------------------------------------------------------------------------------
    c11.export_import(ctx, "C14.R4")
    ctx.floor("C14.R4", 6)

    # ---- R5 deep clones ----------------------------------------------------------------------------------------
    F = ctx.F("A")
    tw = type_walk(ctx, SRV)
    owners = sorted({o for o, _, _ in tw})
    bad = [(o, f, t) for o, f, t in tw if any(m in t for m in INTERIOR)]
    ctx.add("C14.R5", SRV + "#no-shared-state", not bad and len(owners) >= 5,
            "server state must not contain shared ownership / interior mutability: %s" % bad, ctx.F("A").adt(SRV)["loc"],
            sample={"types_walked": owners})
    for adt in owners:
        short = adt.split("::", 1)[1]
        cl = [im for im in F.impls if im["crate"] == "ppoprf" and im["trait"] == "std::clone::Clone" and
              (im["self_ty"] == short or im["self_ty"] == short.split("::")[-1] or short.endswith(im["self_ty"]))]
        if adt.endswith("ProofDLEQ") or adt.endswith("Evaluation") or adt.endswith("CurveScalar"):
            continue
        derived = bool(cl) and all(im["exp"] and "derive" in im["exp"] for im in cl)
        ctx.add("C14.R5", adt + "#derived-clone", derived,
                "%s must derive Clone (field-wise deep copy); impls found: %s" % (adt, [(im["self_ty"], im["exp"]) for im in cl]),
                F.adt(adt)["loc"])
    ctx.floor("C14.R5", 5)

    # ---- R6 = C10.R4 ----------------------------------------------------------------------------------------------
    c10.descent_rules(ctx, "C14.R6")
    ctx.floor("C14.R6", 5)
