"""C17 - the WASM string API is a faithful wrapper of the core protocol."""
from .. import query as Q
from ..terms import PHI, is_t
from .common import S, fidx, ok_variant

EXPLANATION = (
    "Decided statically: (R1) the JSON produced by create_share - decoded from the compiler's fmt::Arguments "
    "template - has the literal pieces {\"key\": \"..\", \"share\": \"..\", \"tag\": \"..\"} and the three placeholders "
    "are filled, in this order, with standard-alphabet base64 of the sharing material's key, of the share's "
    "to_bytes encoding and of its tag; (R2) delegation: the generator is built from exactly (measurement bytes, "
    "threshold, the epoch string's bytes) and share_with_local_randomness is called on it; group_shares splits on "
    "newlines, base64-decodes (same alphabet) and parses every chunk, hands them to share_recover, derives the key "
    "from the recovered message and the epoch string's bytes and returns base64 of exactly that 16-byte key; (R3) "
    "a recovery error or any undecodable chunk yields None; (R5) the delegated recovery admits a share to interpolation only on a successful distinct-x insertion and refuses iff fewer than threshold distinct points (C01.R4 re-run); (R4) no measurement, threshold, epoch or share text can panic create_share / group_shares (C09 engine run on both entry points).  NOT decided: equality with the core library's values for "
    "concrete inputs beyond the delegation structure."
    "  Also (R6 = C02.R5) the recovery the wrapper delegates to returns a message only after re-checking the MAC against the rebuilt transcript.")
ASSUMPTIONS = ["format!/fmt::Arguments template layout of the pinned nightly (length-prefixed literals, 0xC0 placeholders)"]
TRUSTED = []


def decode_template(b):
    """nightly fmt::Arguments template: [len][literal bytes] | 0xC0 (next argument) ... 0 terminator"""
    out = []
    i = 0
    argi = 0
    while i < len(b):
        x = b[i]
        if x == 0:
            return out
        if x == 0xC0:
            out.append(("arg", argi))
            argi += 1
            i += 1
            continue
        if x < 0x80:
            out.append(("lit", b[i + 1:i + 1 + x].decode("utf8", "replace")))
            i += 1 + x
            continue
        return None
    return None


def run(ctx):
    root = "star_wasm::create_share"
    eng, ret, st, fr = ctx.root(root)
    at = ctx.fn(root).loc
    inc = PHI.get(ret.args[0]) if ret is not None and ret.op == "phi" else {0: ret}
    outs = [v for v in inc.values() if v is not None and v.op == "formatted"]
    empties = [v for v in inc.values() if v is not None and v.op != "formatted"]
    if len(outs) != 1:
        ctx.add("C17.R1", root + "#format", False, "create_share must produce its result with one format! invocation (found %d)" % len(outs), at)
        return
    fa = outs[0].args[0]
    tmpl, arr = fa.args
    tb = Q.find_all(tmpl, lambda t: t.op == "bytes")
    pieces = decode_template(bytes.fromhex(tb[0].args[0])) if tb else None
    want = [("lit", '{"key": "'), ("arg", 0), ("lit", '", "share": "'), ("arg", 1), ("lit", '", "tag": "'), ("arg", 2), ("lit", '"}')]
    ctx.add("C17.R1", root + "#json-template", pieces == want,
            "the JSON template must be {\"key\": \"<0>\", \"share\": \"<1>\", \"tag\": \"<2>\"}; decoded %s" % pieces, at, sample=pieces)
    sw = [e for e in Q.calls(eng, "MessageGenerator::share_with_local_randomness") if e["home"] == fr.key]
    mat = None
    if len(sw) == 1:
        okv = ok_variant(sw[0]["result"], 0)
        mat = okv[2][0] if okv else None
    W = "sta_rs::WASMSharingMaterial"
    if mat is None or mat.op != "agg" or arr.op != "agg" or len(arr.args) != 4:
        ctx.add("C17.R1", root + "#material", False, "no sharing material / three format arguments found", at)
    else:
        key, share, tag = (mat.args[1 + fidx(ctx, W, n)] for n in ("key", "share", "tag"))
        tb_ev = [e for e in Q.calls(eng, "sta_rs::Share::to_bytes") if e["home"] == fr.key]
        share_bytes = tb_ev[0]["result"] if tb_ev else None
        wants = [("key", key), ("share", share_bytes), ("tag", tag)]
        for i, (nm, wv) in enumerate(wants):
            a = arr.args[1 + i]
            okb = a.op == "fmtarg" and a.args[0] == "new_display" and a.args[1].op == "b64enc" and \
                "general_purpose::STANDARD" in S(a.args[1].args[0], 3) and "NO_PAD" not in S(a.args[1].args[0], 3) and a.args[1].args[1] is wv
            ctx.add("C17.R1", root + "#field:" + nm, okb and wv is not None,
                    "JSON field \"%s\" must be standard base64 of the material's %s; placeholder %d is %s" % (nm, nm, i, S(a, 4)), at,
                    sample=S(a, 3))
        ctx.add("C17.R1", root + "#share-is-to_bytes-of-material-share", bool(tb_ev) and tb_ev[0]["argv"][0] is share,
                "the encoded share must be material.share.to_bytes()", at)
    ctx.floor("C17.R1", 5)

    # ---- R2 delegation (create) ------------------------------------------------------------------------------
    mg = [e for e in Q.calls(eng, "sta_rs::MessageGenerator::new") if e["home"] == fr.key]
    okd = len(mg) == 1 and len(sw) == 1
    det = ""
    if okd:
        a = mg[0]["argv"]
        okd = Q.params(Q.leaves(a[0])) == {"measurement"} and not Q.contains(a[0], lambda t: t.op in ("slice", "cast")) and \
            Q.path_of(a[1]) == "threshold" and Q.path_of(a[2]) == "epoch"
        det = [S(x, 3) for x in a]
        okd = okd and sw[0]["argv"][0] is mg[0]["result"]
    ctx.add("C17.R2", root + "#delegates-to-core", okd,
            "the generator must be MessageGenerator::new(measurement, threshold, epoch.as_bytes()) and share_with_local_randomness be called on it; arguments %s" % det, at, sample=det)
    ctx.add("C17.R2", root + "#error-gives-empty-string", all(Q.consts(Q.leaves(v)) <= {""} and not Q.params(Q.leaves(v)) and not Q.rngs(Q.leaves(v)) for v in empties) and len(empties) <= 1,
            "the only other result may be the empty string (on a sharing error)", at)

    # ---- group_shares -------------------------------------------------------------------------------------------
    root = "star_wasm::group_shares"
    eng, ret, st, fr = ctx.root(root)
    at = ctx.fn(root).loc
    some = Q.variant(ret, 1)
    fs = Q.facts_of_variant(eng, ret, 1) or set()
    sr = [e for e in Q.calls(eng, "sta_rs::share_recover") if e["home"] == fr.key]
    dk = [e for e in Q.calls(eng, "sta_rs::derive_ske_key") if e["home"] == fr.key]
    okg = len(sr) == 1 and len(dk) == 1 and some is not None
    det = ""
    if okg:
        okr = ok_variant(sr[0]["result"], 0)
        com = okr[2][0] if okr else None
        msg = dk[0]["argv"][0]
        ep = dk[0]["argv"][1]
        iM = fidx(ctx, "adss::Commune", "M")
        from_msg = com is not None and com.op == "agg" and msg is com.args[1 + iM]
        keybuf_after = None
        out = some[2][0]
        okout = out.op == "b64enc" and "general_purpose::STANDARD" in S(out.args[0], 3) and out.args[1].op == "slice" and \
            out.args[1].args[2].op == "int" and out.args[1].args[2].args[0] == 16 and Q.contains(out.args[1], lambda t: t.op == "owf")
        # the encoded key is what derive_ske_key wrote for (message, epoch)
        dep = Q.params(Q.leaves(out))
        okg = from_msg and Q.path_of(ep) == "epoch" and okout and "epoch" in dep and "serialized_shares" in dep
        det = "message from recovered Commune: %s; epoch arg %s; output %s" % (from_msg, S(ep, 3), S(out, 3))
    ctx.add("C17.R2", root + "#delegates-to-core", okg,
            "group_shares must derive the key from share_recover(..).get_message() and epoch.as_bytes() and return base64 of the 16-byte key: %s" % det, at, sample=det)
    # parsing chain: split on '\n', base64 STANDARD decode, Share::from_bytes
    dec = [e for e in Q.calls(eng, "base64::Engine::decode")]
    fb = [e for e in Q.calls(eng, "sta_rs::Share::from_bytes")]
    sp = [e for e in Q.calls(eng, "str>::split") if not (e.get("callee") or "").endswith("split_at")]
    okp = len(dec) == 1 and len(fb) == 1 and len(sp) == 1 and "general_purpose::STANDARD" in S(dec[0]["argv"][0], 3) and \
        fb[0]["argv"][0].op == "b64dec" and Q.params(Q.leaves(dec[0]["argv"][1])) == {"serialized_shares"} and \
        Q.contains(sp[0]["args"][1], lambda t: t.op == "int" and t.args[0] == 10)
    ctx.add("C17.R2", root + "#parses-newline-separated-base64-shares", okp,
            "shares must be split on '\\n', base64(standard)-decoded and parsed with Share::from_bytes", at)
    ctx.floor("C17.R2", 4)

    # ---- R3 errors give None --------------------------------------------------------------------------------------
    okn = any(t.op == "discr" and rel == "eq" and v == 0 and sr and t.args[0] is sr[0]["result"] for t, rel, v in fs) or \
        any(t.op == "is_variant" for t, rel, v in fs)
    if not okn and sr and sr[0]["result"] is not None:
        # the same test through a view of the result (`.ok()?`, `match`, `let else`): a dominating discriminant test on an
        # enum whose selected alternative was created where share_recover's Ok was created
        okalt = Q.variant(sr[0]["result"], 0)
        oko = okalt[4] if okalt else frozenset()
        for t, rel, v in fs:
            if t.op == "discr" and rel == "eq" and t.args[0].op == "enum" and oko:
                mine = [a for a in t.args[0].args[1] if a[0] == v]
                if len(mine) == 1 and mine[0][4] and mine[0][4] <= oko:
                    okn = True
    ctx.add("C17.R3", root + "#some-requires-recovery-ok", okn, "Some(..) must require that share_recover returned Ok", at)
    okc = any(t.op == "b64_valid" and rel == "eq" and v == 1 for t, rel, v in fs)
    if not okc:
        # loop form: every stored share was decoded from a valid chunk, and an invalid chunk returns None
        pushes = [e for e in Q.calls(eng, "::push") if e["home"] == fr.key]
        okpush = bool(pushes) and all(any(t.op == "b64_valid" and rel == "eq" and v == 1 for t, rel, v in Q.closure(eng, eng.facts_at(e["frame"], e["block"])))
                                      for e in pushes)
        none = Q.variant(ret, 0)
        oknone = False
        for (fk, b) in (none[4] if none else ()):
            if any(t.op == "b64_valid" and rel == "eq" and v == 0 for t, rel, v in Q.closure(eng, eng.facts_at(fk, b))):
                oknone = True
        okc = okpush and oknone
    ctx.add("C17.R3", root + "#some-requires-decodable-chunks", okc, "Some(..) must require every chunk to be valid base64 (and a valid share): an undecodable chunk must lead to None", at)
    ctx.floor("C17.R3", 2)
    # ---- R4: no measurement / epoch / share text can crash either call (PANIC engine of C09; allocation sizes excluded)
    from . import c09
    c09.run_entries(ctx, "C17.R4", [("star_wasm::create_share", {"measurement", "epoch", "threshold"}, "A"),
                                     ("star_wasm::group_shares", {"serialized_shares", "epoch"}, "A")], 64,
                    skip_kinds=("alloc",), skip_fns=("star_sharks::share_ff::<impl std::convert::From<&share_ff::Share> for std::vec::Vec<u8>>::from",))
    ctx.floor("C17.R4.ENTRY", 2)
    # ---- R5: the core recovery the wrapper delegates to counts distinct shares correctly (C01.R4 re-run) --------
    from . import c01
    c01.recover_guards(ctx, "C17.R5")
    ctx.floor("C17.R5", 6)
    # ---- R6: the recovery the wrapper delegates to returns a message only after re-checking the MAC (C02.R5 / C05.R1):
    #          otherwise shares of different measurements or epochs yield Some(garbage key) instead of nothing
    from . import c05
    for r in ("adss::recover", "sta_rs::share_recover"):
        e2, ret2, _, _ = ctx.root(r)
        g = c05.weak_mac_gate(e2, ret2, 0, fidx(ctx, "adss::Share", "J"))
        ctx.add("C17.R6", r + "#mac-gate", bool(g), "Ok of %s is not gated by a check of the share's MAC against the rebuilt transcript" % r, ctx.fn(r).loc)
    ctx.floor("C17.R6", 2)
