"""bin/check driver: run the rule instances of one property on /repo's current tree, write evidence,
filter known findings by exact key, print VIOLATION lines."""
import importlib
import json
import os
import sys
import time
import traceback

from . import extract, facts, models, sym
from .terms import show

VERIF = os.path.dirname(os.path.dirname(os.path.abspath(__file__)))

LEVEL = {"C09": "proof"}


class AnchorMissing(Exception):
    pass


class Inst:
    """one evaluated rule instance"""
    __slots__ = ("rule", "key", "ok", "detail", "loc", "sample", "nontrivial")

    def __init__(self, rule, key, ok, detail="", loc="", sample=None, nontrivial=True):
        self.rule = rule
        self.key = key          # stable key: crate/function/rule/descriptor, never a line number
        self.ok = ok
        self.detail = detail
        self.loc = loc
        self.sample = sample
        self.nontrivial = nontrivial


# thorough tier: additional build configurations in which the same rules must hold
#   B = ppoprf with feature key-sync, C = star-sharks without default features (no_std)
ALT_CFGS = {"C06": ["C"], "C07": ["C"], "C10": ["B"], "C11": [], "C12": ["B"], "C13": ["B"], "C14": [], "C15": ["B"]}


class Ctx:
    def __init__(self, tier, pid, cfg_map=None, suffix=""):
        self.tier = tier
        self.pid = pid
        self.cfg_map = cfg_map or {}
        self.suffix = suffix
        self._facts = {}
        self._roots = {}
        self.insts = []
        self.floors = {}       # rule -> (expected minimum, found)
        self.notes = []
        self.cfgs_used = set()
        self.models_used = {}
        self.unmodelled = {}
        self.stats = {"functions_analysed": set(), "frames": 0, "block_execs": 0, "call_sites": 0}
        self.obligations = 0
        self.discharged = 0
        self.extra = {}

    def _cfg(self, cfg):
        # "A!" = build configuration A itself even while the rules are re-run under an alternative configuration
        return cfg[:-1] if cfg.endswith("!") else self.cfg_map.get(cfg, cfg)

    def F(self, cfg="A"):
        cfg = self._cfg(cfg)
        if cfg not in self._facts:
            self._facts[cfg] = facts.Facts(extract.ensure(cfg))
            self.cfgs_used.add(cfg)
            self.notes += self._facts[cfg].notes
        return self._facts[cfg]

    def fn(self, name, cfg="A"):
        try:
            return self.F(cfg).fn(name)
        except KeyError as e:
            raise AnchorMissing(str(e))

    def root(self, name, cfg="A", usize_bits=64, opaque=()):
        """SYM analysis of `name` as an entry point (memoised)"""
        req = cfg
        cfg = self._cfg(cfg)
        key = (name, cfg, usize_bits, tuple(sorted(opaque)))
        if key not in self._roots:
            F = self.F(req)
            fn = self.fn(name, req)
            eng = sym.Engine(F, models, usize_bits=usize_bits, opaque=opaque)
            ret, st, fr = eng.run_root(fn)
            self._roots[key] = (eng, ret, st, fr)
            self.stats["frames"] += eng.n_frames
            self.stats["block_execs"] += eng.n_block_execs
            for ev in eng.events.values():
                if ev["kind"] == "call":
                    self.stats["call_sites"] += 1
                self.stats["functions_analysed"].add(ev["fn"])
            for k, v in eng.used_models.items():
                self.models_used[k] = self.models_used.get(k, 0) + v
            for k, v in eng.unmodelled.items():
                self.unmodelled[k] = self.unmodelled.get(k, 0) + v
            for n in eng.unsupported:
                self.notes.append("%s: %s" % (name, n))
        return self._roots[key]

    def add(self, rule, key, ok, detail="", loc="", sample=None, nontrivial=True):
        self.insts.append(Inst(rule, "%s/%s%s" % (rule, key, self.suffix), bool(ok), detail, loc, sample, nontrivial))
        return bool(ok)

    def floor(self, rule, expected):
        found = sum(1 for i in self.insts if i.rule == rule)
        self.floors[rule] = (expected, found)


def load_known():
    known = {}
    p = os.path.join(VERIF, "KNOWN_FINDINGS.txt")
    if os.path.exists(p):
        for line in open(p):
            line = line.strip()
            if line.startswith("known:"):
                parts = line.split(None, 3)
                pid = parts[1].split("=", 1)[1]
                key = parts[2].split("=", 1)[1]
                what = parts[3] if len(parts) > 3 else ""
                known[(pid, key)] = what
    return known


def run_property(pid, tier):
    t0 = time.time()
    ctx = Ctx(tier, pid)
    mod = importlib.import_module("sv.rules." + pid.lower())
    def one_pass(c):
        try:
            mod.run(c)
        except AnchorMissing as e:
            c.add(pid + ".ANCHOR", "anchor-missing:" + str(e), False,
                  "a function/type this property is anchored in no longer exists: " + str(e))
        except sym.Unsupported as e:
            c.add(pid + ".ENGINE", "unsupported:" + str(e), False, "analysis cannot handle this tree: " + str(e))
        # floors: a rule that matches fewer instances than confirmed by hand fails closed
        for rule, (exp, found) in sorted(c.floors.items()):
            if found < exp:
                c.add(rule, "floor", False,
                      "rule matched %d instance(s), expected at least %d: the construct it checks has disappeared" % (found, exp))
    one_pass(ctx)
    if tier == "thorough":
        for alt in ALT_CFGS.get(pid, []):
            c2 = Ctx(tier, pid, cfg_map={"A": alt}, suffix="@cfg" + alt)
            one_pass(c2)
            ctx.insts += c2.insts
            ctx.cfgs_used |= c2.cfgs_used
            ctx.notes += c2.notes
            for k, v in c2.floors.items():
                ctx.floors[k + "@cfg" + alt] = v
            for k, v in c2.models_used.items():
                ctx.models_used[k] = ctx.models_used.get(k, 0) + v
            for k in ("frames", "block_execs", "call_sites"):
                ctx.stats[k] += c2.stats[k]
            ctx.stats["functions_analysed"] |= c2.stats["functions_analysed"]
        # determinism: the same verdicts under a different hash seed (guards against order-dependent analysis bugs)
        if not os.environ.get("SV_NO_DETERMINISM_CHECK"):
            import subprocess
            env = dict(os.environ, PYTHONHASHSEED="12345", SV_NO_DETERMINISM_CHECK="1", SV_DUMP_VERDICTS="1",
                       SV_EVIDENCE_DIR=os.path.join(VERIF, ".work", "determinism-%s" % pid))
            p = subprocess.run([sys.executable, "-m", "sv.check", pid, "thorough"], cwd=VERIF, env=env, capture_output=True, text=True)
            other = {}
            for line in p.stdout.splitlines():
                if line.startswith("VERDICT "):
                    _, ok_, key_ = line.split(" ", 2)
                    other[key_] = ok_ == "1"
            mine = {i.key: i.ok for i in ctx.insts}
            diff = sorted(k for k in set(mine) | set(other) if mine.get(k) != other.get(k) and not k.startswith(pid + ".X/"))
            ctx.add(pid + ".DETERMINISM", "same-verdicts-under-different-hash-seed", not diff,
                    "verdicts differ between two runs with different PYTHONHASHSEED: %s" % diff[:5], "sv/", sample={"instances_compared": len(mine)})
    if os.environ.get("SV_DUMP_VERDICTS"):
        for i in ctx.insts:
            print("VERDICT %d %s" % (1 if i.ok else 0, i.key))
    known = load_known()
    viol = [i for i in ctx.insts if not i.ok]
    new = []
    for i in viol:
        if (pid, i.key) in known:
            print("KNOWN-FINDING: property=%s %s [%s]" % (pid, known[(pid, i.key)], i.key))
        else:
            new.append(i)
    evdir = os.environ.get("SV_EVIDENCE_DIR") or os.path.join(VERIF, "evidence")
    repdir = os.path.join(os.environ["SV_EVIDENCE_DIR"], "reports") if os.environ.get("SV_EVIDENCE_DIR") else os.path.join(VERIF, "reports")
    os.makedirs(repdir, exist_ok=True)
    os.makedirs(evdir, exist_ok=True)
    for n, i in enumerate(new):
        rp = os.path.join("reports", "%s-%d.json" % (pid, n))
        json.dump({"property": pid, "rule": i.rule, "key": i.key, "where": i.loc, "explanation": i.detail,
                   "sample": i.sample, "tier": tier}, open(os.path.join(repdir, "%s-%d.json" % (pid, n)), "w"), indent=1, default=str)
        print("VIOLATION property=%s replay=%s" % (pid, rp))
        print("  rule %s at %s: %s" % (i.key, i.loc, i.detail))
    # evidence
    level = LEVEL.get(pid, "other")
    samples = []
    for i in ctx.insts:
        if i.sample is not None and len(samples) < 24:
            samples.append({"rule": i.key, "where": i.loc, "holds": i.ok, "observed": i.sample})
    distinct = len({i.key for i in ctx.insts if i.nontrivial})
    cov = {
        "explanation": getattr(mod, "EXPLANATION", ""),
        "rule": "one evaluation = one rule instance evaluated on a concrete construct of /repo's current MIR "
                "(a call site, a guard, a transcript, a field, a failure site); distinct_nontrivial counts distinct "
                "instance keys that inspected at least one construct",
        "evaluations": len(ctx.insts),
        "distinct_nontrivial": distinct,
        "samples": samples or [{"note": "no samples"}],
        "rules": {r: {"expected_min": e, "found": f} for r, (e, f) in sorted(ctx.floors.items())},
        "functions_analysed": len(ctx.stats["functions_analysed"]),
        "frames_analysed": ctx.stats["frames"],
        "block_executions": ctx.stats["block_execs"],
        "call_sites": ctx.stats["call_sites"],
        "cfgs": sorted(ctx.cfgs_used),
        "models_used": dict(sorted(ctx.models_used.items())),
        "unmodelled_external_callees": dict(sorted(ctx.unmodelled.items())),
        "engine_notes": ctx.notes[:40],
        "known_findings_suppressed": [i.key for i in viol if (pid, i.key) in known],
        "checker_cmd": "bin/check %s %s" % (pid, tier),
        "trusted_base": getattr(mod, "TRUSTED", []) + [
            "rustc nightly MIR construction, type resolution and const evaluation",
            "external-call model table sv/models.py (entries used are listed under models_used)"],
    }
    if level == "proof" or ctx.obligations:
        cov["obligations"] = ctx.obligations
        cov["discharged"] = ctx.discharged
    cov.update(ctx.extra)
    ev = {
        "property_id": pid, "tier": tier, "seed": int(os.environ.get("VERIF_SEED", "0") or 0), "level": level,
        "coverage": cov,
        "assumptions": getattr(mod, "ASSUMPTIONS", []),
        "wall_s": round(time.time() - t0, 2),
        "violations": len(new),
    }
    json.dump(ev, open(os.path.join(evdir, pid + ".json"), "w"), indent=1, default=str)
    ok = sum(1 for i in ctx.insts if i.ok)
    print("[%s %s] %d rule instances, %d hold, %d known, %d new violations, %.1fs"
          % (pid, tier, len(ctx.insts), ok, len(viol) - len(new), len(new), time.time() - t0))
    return 1 if new else 0


def main(argv):
    if len(argv) >= 2 and argv[0] == "--replay":
        rp = json.load(open(os.path.join(VERIF, argv[1]) if not os.path.isabs(argv[1]) else argv[1]))
        print("replaying %s rule %s" % (rp["property"], rp["key"]))
        rc = run_property(rp["property"], rp.get("tier", "quick"))
        return rc
    pid = argv[0]
    tier = argv[1] if len(argv) > 1 else os.environ.get("VERIF_TIER", "quick")
    try:
        return run_property(pid, tier)
    except SystemExit:
        raise
    except Exception:
        # fail closed in the documented output format: the analysis could not handle this tree
        tb = traceback.format_exc()
        sys.stderr.write(tb)
        evd = os.environ.get("SV_EVIDENCE_DIR")
        repdir = os.path.join(evd, "reports") if evd else os.path.join(VERIF, "reports")
        os.makedirs(repdir, exist_ok=True)
        rp = os.path.join("reports", "%s-engine.json" % pid)
        json.dump({"property": pid, "rule": pid + ".ENGINE", "key": pid + ".ENGINE/internal-error",
                   "explanation": "the checker raised an internal error on this tree (no rule verdicts): " + tb[-1500:], "tier": tier},
                  open(os.path.join(repdir, "%s-engine.json" % pid), "w"), indent=1)
        print("VIOLATION property=%s replay=%s" % (pid, rp))
        print("  rule %s.ENGINE/internal-error: the analysis could not handle this tree (fail closed): %s" % (pid, tb.strip().splitlines()[-1][:200]))
        return 1


if __name__ == "__main__":
    sys.exit(main(sys.argv[1:]))
