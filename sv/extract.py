"""Fact extraction: run the starfacts rustc driver over /repo's *current working tree*.

Facts are cached under /verif/.cache/facts/<key>/<cfg>/ where key = sha256 of every
tracked-or-untracked source file under /repo (excluding target/ and .git/) + driver hash,
so any edit to /repo yields a fresh extraction.  Nothing lives under /tmp.
"""
import fcntl
import hashlib
import os
import shutil
import subprocess
import sys
import time

VERIF = os.path.dirname(os.path.dirname(os.path.abspath(__file__)))
REPO = os.environ.get("SV_REPO", "/repo")
DRIVER = os.path.join(VERIF, "driver", "target", "release", "starfacts")
CACHE = os.path.join(VERIF, ".cache", "facts")
WORK = os.path.join(VERIF, ".work")

# cfg name -> (cargo args, extra RUSTFLAGS, expected crates)
CFGS = {
    "A": (["--workspace", "--lib", "-p", "star-test-utils"], "",
          ["adss", "ppoprf", "sta_rs", "star_sharks", "star_test_utils", "star_wasm"]),
    "B": (["-p", "ppoprf", "--features", "key-sync", "--lib"], "", ["ppoprf"]),
    "C": (["-p", "star-sharks", "--no-default-features", "--lib"], "", ["star_sharks"]),
    "D": (["--workspace", "--lib", "-p", "star-test-utils"], " -C overflow-checks=off -C debug-assertions=off",
          ["adss", "ppoprf", "sta_rs", "star_sharks", "star_test_utils", "star_wasm"]),
}


def _sysroot():
    return subprocess.check_output(["rustc", "+nightly", "--print", "sysroot"], text=True).strip()


def tree_key():
    h = hashlib.sha256()
    for root, dirs, files in os.walk(REPO):
        dirs[:] = sorted(d for d in dirs if d not in ("target", ".git", "node_modules"))
        for f in sorted(files):
            p = os.path.join(root, f)
            if not (f.endswith(".rs") or f.endswith(".toml") or f == "Cargo.lock"):
                continue
            h.update(os.path.relpath(p, REPO).encode())
            h.update(b"\0")
            try:
                with open(p, "rb") as fh:
                    h.update(fh.read())
            except OSError:
                pass
            h.update(b"\0")
    with open(DRIVER, "rb") as fh:
        h.update(hashlib.sha256(fh.read()).digest())
    return h.hexdigest()[:24]


def ensure_driver():
    if os.path.exists(DRIVER):
        return
    env = dict(os.environ, CARGO_NET_OFFLINE="true")
    subprocess.check_call(["cargo", "build", "--release", "--offline"], cwd=os.path.join(VERIF, "driver"), env=env)


def ensure(cfg, log=sys.stderr):
    """Return the directory holding the fact files of `cfg` for the current /repo tree."""
    ensure_driver()
    key = tree_key()
    out = os.path.join(CACHE, key, cfg)
    marker = os.path.join(out, "OK")
    if os.path.exists(marker):
        try:
            os.utime(os.path.join(CACHE, key))
        except OSError:
            pass
        return out
    os.makedirs(os.path.join(CACHE, key), exist_ok=True)
    os.makedirs(WORK, exist_ok=True)
    lock = open(os.path.join(WORK, "extract.lock"), "w")
    fcntl.flock(lock, fcntl.LOCK_EX)
    try:
        if os.path.exists(marker):
            return out
        t0 = time.time()
        tdir = os.path.join(WORK, "target-%s-%d" % (cfg, os.getpid()))
        fdir = out + ".tmp"
        shutil.rmtree(tdir, ignore_errors=True)
        shutil.rmtree(fdir, ignore_errors=True)
        os.makedirs(fdir)
        args, extra, expected = CFGS[cfg]
        env = dict(os.environ)
        env.update({
            "LD_LIBRARY_PATH": _sysroot() + "/lib",
            "CARGO_NET_OFFLINE": "true",
            "RUSTFLAGS": "-Zmir-opt-level=0 -Awarnings" + extra,
            "RUSTC_WORKSPACE_WRAPPER": DRIVER,
            "SV_FACTS_DIR": fdir,
            "CARGO_TARGET_DIR": tdir,
        })
        env.pop("RUSTC_WRAPPER", None)
        p = subprocess.run(["cargo", "+nightly", "check", "--offline"] + args, cwd=REPO, env=env,
                           stdout=subprocess.PIPE, stderr=subprocess.STDOUT, text=True)
        shutil.rmtree(tdir, ignore_errors=True)
        if p.returncode != 0:
            shutil.rmtree(fdir, ignore_errors=True)
            log.write(p.stdout[-4000:])
            raise SystemExit("fact extraction failed for cfg %s (cargo check exit %d): /repo does not build"
                             % (cfg, p.returncode))
        have = sorted({f.rsplit("-", 1)[0] for f in os.listdir(fdir)})
        missing = [c for c in expected if c not in have]
        if missing:
            shutil.rmtree(fdir, ignore_errors=True)
            raise SystemExit("fact extraction incomplete for cfg %s: no fact file for %s" % (cfg, missing))
        shutil.rmtree(out, ignore_errors=True)
        os.rename(fdir, out)
        open(marker, "w").write("%.1f\n" % (time.time() - t0))
        log.write("[facts] cfg %s extracted in %.1fs -> %s\n" % (cfg, time.time() - t0, out))
        _prune(key)
        return out
    finally:
        fcntl.flock(lock, fcntl.LOCK_UN)
        lock.close()


def _prune(keep):
    """keep the cache small: retain the 48 most recently used tree keys."""
    try:
        ents = [(os.path.getmtime(os.path.join(CACHE, d)), d) for d in os.listdir(CACHE)]
    except OSError:
        return
    ents.sort(reverse=True)
    for _, d in ents[48:]:
        if d != keep:
            shutil.rmtree(os.path.join(CACHE, d), ignore_errors=True)


if __name__ == "__main__":
    for c in sys.argv[1:] or ["A"]:
        print(ensure(c))
