"""Loader for starfacts output: functions, ADTs, impls, call graph, canonical names."""
import glob
import json
import os


import re as _re


def nrm(n):
    """canonical spelling of printed paths: no_std builds print core::/alloc:: where std builds print std::"""
    if n is None:
        return None
    return _re.sub(r"\b(core|alloc)::", "std::", n)


class Fn:
    __slots__ = ("d", "path", "name", "crate", "kind", "argc", "vis", "loc", "end", "exp", "impl_exp", "self_ty",
                 "trait", "generics", "locals", "vars", "blocks", "tc", "_cfg")

    def __init__(self, d, crate):
        self.d = d
        self.path = d["path"]
        self.crate = crate
        n = nrm(d["name"])
        self.name = crate + "::" + n
        self.kind = d["kind"]
        self.argc = d["argc"]
        self.vis = d["vis"]
        self.loc = d["loc"]
        self.end = d.get("end")
        self.exp = d["exp"]
        self.impl_exp = d["impl_exp"]
        self.self_ty = nrm(d["self_ty"])
        self.trait = nrm(d["trait"])
        self.generics = d["generics"]
        self.locals = d["locals"]
        self.vars = d["vars"]
        self.blocks = d["blocks"]
        self.tc = d["tc"]
        self._cfg = None

    @property
    def derived(self):
        """body produced by a derive macro (or inside a derive-generated impl)"""
        for e in (self.exp, self.impl_exp):
            if e and "derive" in e:
                return True
        return False

    def var_name(self, local):
        for n, p in self.vars:
            if p[0] == local and not p[1]:
                return n
        return None

    def local_of(self, name):
        for n, p in self.vars:
            if n == name and not p[1]:
                return p[0]
        return None

    def __repr__(self):
        return "<Fn %s>" % self.name


class Facts:
    def __init__(self, fdir):
        self.dir = fdir
        self.fns = {}        # raw path -> Fn
        self.by_name = {}    # canonical pretty name -> Fn
        self.adts = {}       # crate::pretty -> dict
        self.impls = []      # dicts with crate
        self.crates = []
        for f in sorted(glob.glob(os.path.join(fdir, "*.jsonl"))):
            crate = None
            with open(f) as fh:
                for line in fh:
                    d = json.loads(line)
                    k = d["k"]
                    if k == "crate":
                        crate = d["name"]
                        self.crates.append(crate)
                    elif k == "fn":
                        fn = Fn(d, crate)
                        self.fns[fn.path] = fn
                        self.by_name.setdefault(fn.name, fn)
                    elif k == "adt":
                        d["crate"] = crate
                        self.adts[crate + "::" + d["name"]] = d
                    elif k == "impl":
                        d["crate"] = crate
                        d["trait"] = nrm(d["trait"])
                        d["self_ty"] = nrm(d["self_ty"])
                        self.impls.append(d)
        # trait-method dispatch table: (method name, self type string) -> raw path
        self.dispatch = {}
        for im in self.impls:
            for name, path in im["items"]:
                self.dispatch.setdefault((name, im["self_ty"], im["crate"]), path)

    def fn(self, name):
        """lookup by canonical pretty name, fail closed"""
        f = self.by_name.get(name)
        if f is None:
            raise KeyError("anchor missing: %s" % name)
        return f

    def find(self, suffix):
        return [f for f in self.fns.values() if f.name.endswith(suffix)]

    def closures_of(self, fn):
        pre = fn.path + "::{closure#"
        return [f for p, f in self.fns.items() if p.startswith(pre)]

    def adt(self, name):
        a = self.adts.get(name)
        if a is None:
            raise KeyError("anchor missing: ADT %s" % name)
        return a

    # ---- call graph over workspace bodies -------------------------------------------------
    def callees(self, fn):
        """yield (block index, term, callee const dict) for every call terminator; also closures created"""
        for bi, b in enumerate(fn.blocks):
            t = b["t"]
            if "call" in t:
                k = t["call"].get("k")
                yield bi, t, k

    def closure_refs(self, fn):
        out = []
        for b in fn.blocks:
            for s in b["s"]:
                r = s.get("r")
                if r and "agg" in r and isinstance(r["agg"], dict) and "closure" in r["agg"]:
                    out.append(r["agg"]["closure"])
        return out

    def reachable(self, roots, follow_derived=True):
        """workspace functions reachable from the root Fns through resolved calls and created closures"""
        seen = {}
        stack = list(roots)
        while stack:
            f = stack.pop()
            if f.path in seen:
                continue
            seen[f.path] = f
            for _, _, k in self.callees(f):
                if k and "fn" in k:
                    g = self.fns.get(k["fn"])
                    if g is not None and (follow_derived or not g.derived):
                        stack.append(g)
                # fn items passed as arguments
            for b in f.blocks:
                t = b["t"]
                if "call" in t:
                    for a in t["args"]:
                        kk = a.get("k")
                        if kk and "fn" in kk and kk["fn"] in self.fns:
                            stack.append(self.fns[kk["fn"]])
            for c in self.closure_refs(f):
                g = self.fns.get(c)
                if g is not None:
                    stack.append(g)
        return seen


def const_int(k):
    """python int of an exported scalar constant (sign-aware by type name)"""
    v = int(k["int"])
    ty = k["ty"]
    if ty.startswith("i") and ty[1:].isdigit() or ty == "isize":
        bits = k["sz"] * 8
        if v >= 1 << (bits - 1):
            v -= 1 << bits
    return v
