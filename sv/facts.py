"""Loader for starfacts output: functions, ADTs, impls, call graph, canonical names."""
import glob
import json
import os


import re as _re


def nrm(n):
    """canonical spelling of printed paths: no_std builds print core::/alloc:: where std builds print std::"""
    if n is None:
        return None
    return _re.sub(r"\b(core|alloc)::", "std::", n)


class Fn:
    __slots__ = ("d", "path", "name", "crate", "kind", "argc", "vis", "loc", "end", "exp", "impl_exp", "self_ty",
                 "trait", "generics", "locals", "vars", "blocks", "tc", "_cfg")

    def __init__(self, d, crate):
        self.d = d
        self.path = d["path"]
        self.crate = crate
        n = nrm(d["name"])
        self.name = crate + "::" + n
        self.kind = d["kind"]
        self.argc = d["argc"]
        self.vis = d["vis"]
        self.loc = d["loc"]
        self.end = d.get("end")
        self.exp = d["exp"]
        self.impl_exp = d["impl_exp"]
        self.self_ty = nrm(d["self_ty"])
        self.trait = nrm(d["trait"])
        self.generics = d["generics"]
        self.locals = d["locals"]
        self.vars = d["vars"]
        self.blocks = d["blocks"]
        self.tc = d["tc"]
        self._cfg = None

    @property
    def derived(self):
        """body produced by a derive macro (or inside a derive-generated impl)"""
        for e in (self.exp, self.impl_exp):
            if e and "derive" in e:
                return True
        return False

    def var_name(self, local):
        for n, p in self.vars:
            if p[0] == local and not p[1]:
                return n
        return None

    def local_of(self, name):
        for n, p in self.vars:
            if n == name and not p[1]:
                return p[0]
        return None

    def __repr__(self):
        return "<Fn %s>" % self.name


class Facts:
    def __init__(self, fdir):
        self.dir = fdir
        self.fns = {}        # raw path -> Fn
        self.by_name = {}    # canonical pretty name -> Fn
        self.adts = {}       # crate::pretty -> dict
        self.impls = []      # dicts with crate
        self.crates = []
        self.renamed = {}
        self.notes = []
        for f in sorted(glob.glob(os.path.join(fdir, "*.jsonl"))):
            crate = None
            with open(f) as fh:
                for line in fh:
                    d = json.loads(line)
                    k = d["k"]
                    if k == "crate":
                        crate = d["name"]
                        self.crates.append(crate)
                    elif k == "fn":
                        fn = Fn(d, crate)
                        self.fns[fn.path] = fn
                        self.by_name.setdefault(fn.name, fn)
                    elif k == "adt":
                        d["crate"] = crate
                        self.adts[crate + "::" + d["name"]] = d
                    elif k == "impl":
                        d["crate"] = crate
                        d["trait"] = nrm(d["trait"])
                        d["self_ty"] = nrm(d["self_ty"])
                        self.impls.append(d)
        # anchored functions that were renamed or moved: resolve eagerly so that every later query sees the anchored name
        for name in _anchors():
            if name not in self.by_name and name.split("::", 1)[0] in self.crates:
                self._resolve_renamed(name)
        # trait-method dispatch table: (method name, self type string) -> raw path
        self.dispatch = {}
        for im in self.impls:
            for name, path in im["items"]:
                self.dispatch.setdefault((name, im["self_ty"], im["crate"]), path)

    def fn(self, name):
        """lookup by canonical pretty name; a renamed/moved function is found by its frozen signature when that
        identifies exactly one function of the crate that is not itself a known anchor; otherwise fail closed"""
        f = self.by_name.get(name)
        if f is None:
            f = self._resolve_renamed(name)
        if f is None:
            raise KeyError("anchor missing: %s" % name)
        return f

    def _resolve_renamed(self, name):
        if name in self.renamed:
            return self.renamed[name]
        res = None
        anchors = _anchors()
        sig = anchors.get(name)
        if sig is not None:
            crate = name.split("::", 1)[0]
            cands = [g for g in self.fns.values()
                     if g.crate == crate and g.kind in ("Fn", "AssocFn") and not g.trait and g.name not in anchors
                     and signature(g) == sig]
            if not cands:
                # method <-> free function, or moved into a submodule: same parameter / return types, same last name
                last = name.split("::")[-1]
                cands = [g for g in self.fns.values()
                         if g.crate == crate and g.kind in ("Fn", "AssocFn") and not g.trait and g.name not in anchors
                         and g.name.split("::")[-1] == last and _strip_mod(signature(g)["sig"]) == _strip_mod(sig["sig"])]
            if len(cands) == 1:
                res = cands[0]
                self.notes.append("anchor %s not found by name; resolved by signature to %s (%s)" % (name, res.name, res.loc))
                # downstream queries compare callee names: give the function its anchored name
                self.by_name[name] = res
                res.name = name
        self.renamed[name] = res
        return res

    def find(self, suffix):
        return [f for f in self.fns.values() if f.name.endswith(suffix)]

    def closures_of(self, fn):
        pre = fn.path + "::{closure#"
        return [f for p, f in self.fns.items() if p.startswith(pre)]

    def adt(self, name):
        a = self.adts.get(name)
        if a is None:
            # a type that was moved into another module of its crate keeps its own name: unique match on the last segment
            crate, last = name.split("::", 1)[0], name.split("::")[-1]
            cands = [(n, d) for n, d in self.adts.items() if n.split("::", 1)[0] == crate and n.split("::")[-1] == last]
            if len(cands) == 1:
                self.notes.append("type %s not found by path; resolved to %s" % (name, cands[0][0]))
                self.adts[name] = cands[0][1]
                return cands[0][1]
            raise KeyError("anchor missing: ADT %s" % name)
        return a

    # ---- call graph over workspace bodies -------------------------------------------------
    def callees(self, fn):
        """yield (block index, term, callee const dict) for every call terminator; also closures created"""
        for bi, b in enumerate(fn.blocks):
            t = b["t"]
            if "call" in t:
                k = t["call"].get("k")
                yield bi, t, k

    def closure_refs(self, fn):
        out = []
        for b in fn.blocks:
            for s in b["s"]:
                r = s.get("r")
                if r and "agg" in r and isinstance(r["agg"], dict) and "closure" in r["agg"]:
                    out.append(r["agg"]["closure"])
        return out

    def reachable(self, roots, follow_derived=True):
        """workspace functions reachable from the root Fns through resolved calls and created closures"""
        seen = {}
        stack = list(roots)
        while stack:
            f = stack.pop()
            if f.path in seen:
                continue
            seen[f.path] = f
            for _, _, k in self.callees(f):
                if k and "fn" in k:
                    g = self.fns.get(k["fn"])
                    if g is not None and (follow_derived or not g.derived):
                        stack.append(g)
                # fn items passed as arguments
            for b in f.blocks:
                t = b["t"]
                if "call" in t:
                    for a in t["args"]:
                        kk = a.get("k")
                        if kk and "fn" in kk and kk["fn"] in self.fns:
                            stack.append(self.fns[kk["fn"]])
            for c in self.closure_refs(f):
                g = self.fns.get(c)
                if g is not None:
                    stack.append(g)
        return seen


def _strip_mod(sig):
    """type strings without module paths (a moved item prints its neighbours' paths differently)"""
    return [_re.sub(r"\b(?:[a-z_][a-z0-9_]*::)+", "", x) for x in sig]


def signature(fn):
    """return type, argument types, generic parameter count and receiver type of a function (frozen in sv/anchors.json)"""
    return {"sig": [fn.locals[i] for i in range(fn.argc + 1)], "generics": len(fn.generics or []), "self_ty": fn.self_ty}


_ANCHORS = None


def _anchors():
    global _ANCHORS
    if _ANCHORS is None:
        p = os.path.join(os.path.dirname(os.path.abspath(__file__)), "anchors.json")
        _ANCHORS = json.load(open(p)) if os.path.exists(p) else {}
    return _ANCHORS


_KNOWN = None


def known_functions():
    """names of all workspace functions of the reference tree (frozen by bin/mkanchors next to the signatures)"""
    global _KNOWN
    if _KNOWN is None:
        p = os.path.join(os.path.dirname(os.path.abspath(__file__)), "known_fns.json")
        _KNOWN = set(json.load(open(p))) if os.path.exists(p) else set()
    return _KNOWN


def const_int(k):
    """python int of an exported scalar constant (sign-aware by type name)"""
    v = int(k["int"])
    ty = k["ty"]
    if ty.startswith("i") and ty[1:].isdigit() or ty == "isize":
        bits = k["sz"] * 8
        if v >= 1 << (bits - 1):
            v -= 1 << bits
    return v
