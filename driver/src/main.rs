// starfacts: rustc_private driver that exports the type-checked program (MIR with
// resolved callees, constants, types, spans, ADTs, impl headers) of every local
// crate it is wrapped around, as JSON lines.  Injected via RUSTC_WORKSPACE_WRAPPER.
// It never runs any code of the analysed crates.
#![feature(rustc_private)]
extern crate rustc_abi;
extern crate rustc_driver;
extern crate rustc_hir;
extern crate rustc_interface;
extern crate rustc_middle;
extern crate rustc_span;

use rustc_driver::Compilation;
use rustc_hir::def::DefKind;
use rustc_hir::def_id::DefId;
use rustc_middle::mir::{
    self, AggregateKind, Const, ConstValue, Operand, Place, ProjectionElem, Rvalue, StatementKind,
    TerminatorKind, VarDebugInfoContents,
};
use rustc_middle::ty::print::PrintTraitRefExt;
use rustc_middle::ty::{self, Instance, TyCtxt, TypingEnv};
use rustc_span::{ExpnKind, Span};
use std::fmt::Write;

fn esc(s: &str) -> String {
    let mut o = String::with_capacity(s.len() + 2);
    for c in s.chars() {
        match c {
            '"' => o.push_str("\\\""),
            '\\' => o.push_str("\\\\"),
            '\n' => o.push_str("\\n"),
            '\t' => o.push_str("\\t"),
            '\r' => o.push_str("\\r"),
            c if (c as u32) < 0x20 => {
                write!(o, "\\u{:04x}", c as u32).unwrap();
            }
            c => o.push(c),
        }
    }
    o
}
fn q(s: &str) -> String {
    format!("\"{}\"", esc(s))
}
fn raw_path<'tcx>(tcx: TyCtxt<'tcx>, did: DefId) -> String {
    format!("{}{}", tcx.crate_name(did.krate), tcx.def_path(did).to_string_no_crate_verbose())
}
fn pretty<'tcx>(tcx: TyCtxt<'tcx>, did: DefId) -> String {
    tcx.def_path_str(did)
}
fn expn(sp: Span) -> String {
    // innermost-to-outermost macro backtrace, e.g. "derive:PrimeField" or "bang:format"
    if !sp.from_expansion() {
        return "null".into();
    }
    let mut v = Vec::new();
    for d in sp.macro_backtrace() {
        match d.kind {
            ExpnKind::Macro(k, name) => v.push(format!("{}:{}", k.descr(), name)),
            ExpnKind::Desugaring(k) => v.push(format!("desugar:{:?}", k)),
            ExpnKind::AstPass(k) => v.push(format!("ast:{:?}", k)),
            ExpnKind::Root => {}
        }
    }
    q(&v.join("<"))
}
fn loc<'tcx>(tcx: TyCtxt<'tcx>, sp: Span) -> String {
    // file:line of the outermost call site (user-written location)
    let sp = sp.source_callsite();
    let sm = tcx.sess.source_map();
    let l = sm.lookup_char_pos(sp.lo());
    format!("{}:{}", l.file.name.prefer_local_unconditionally(), l.line)
}
fn place<'tcx>(p: &Place<'tcx>) -> String {
    let mut s = format!("[{},[", p.local.as_u32());
    let mut first = true;
    for e in p.projection.iter() {
        if !first {
            s.push(',');
        }
        first = false;
        match e {
            ProjectionElem::Deref => s.push_str("\"*\""),
            ProjectionElem::Field(f, _) => {
                write!(s, "[\"f\",{}]", f.as_u32()).unwrap();
            }
            ProjectionElem::Index(l) => {
                write!(s, "[\"i\",{}]", l.as_u32()).unwrap();
            }
            ProjectionElem::ConstantIndex { offset, from_end, .. } => {
                write!(s, "[\"ci\",{},{}]", offset, from_end).unwrap();
            }
            ProjectionElem::Subslice { from, to, from_end } => {
                write!(s, "[\"sub\",{},{},{}]", from, to, from_end).unwrap();
            }
            ProjectionElem::Downcast(_, v) => {
                write!(s, "[\"v\",{}]", v.as_u32()).unwrap();
            }
            other => {
                write!(s, "[\"o\",{}]", q(&format!("{:?}", other))).unwrap();
            }
        }
    }
    s.push_str("]]");
    s
}
fn hex(bytes: &[u8]) -> String {
    let mut s = String::with_capacity(bytes.len() * 2);
    for b in bytes {
        write!(s, "{:02x}", b).unwrap();
    }
    s
}
fn konst<'tcx>(tcx: TyCtxt<'tcx>, env: TypingEnv<'tcx>, c: &Const<'tcx>) -> String {
    let ty = c.ty();
    if let ty::FnDef(d, ga) = ty.kind() {
        let r = Instance::try_resolve(tcx, env, *d, ga);
        let (rd, how) = match r {
            Ok(Some(i)) => (i.def_id(), "resolved"),
            _ => (*d, "unresolved"),
        };
        let substs: Vec<String> = ga.iter().map(|a| q(&format!("{}", a))).collect();
        let trait_of = tcx.trait_of_assoc(*d).map(|t| q(&pretty(tcx, t))).unwrap_or("null".into());
        let track = if matches!(tcx.def_kind(rd), DefKind::Fn | DefKind::AssocFn) {
            tcx.codegen_fn_attrs(rd)
                .flags
                .contains(rustc_middle::middle::codegen_fn_attrs::CodegenFnAttrFlags::TRACK_CALLER)
        } else {
            false
        };
        return format!(
            "{{\"fn\":{},\"name\":{},\"decl\":{},\"dname\":{},\"how\":\"{}\",\"substs\":[{}],\"trait\":{},\"local\":{},\"tc\":{}}}",
            q(&raw_path(tcx, rd)),
            q(&pretty(tcx, rd)),
            q(&raw_path(tcx, *d)),
            q(&pretty(tcx, *d)),
            how,
            substs.join(","),
            trait_of,
            rd.is_local(),
            track
        );
    }
    if let Some(si) = c.try_eval_scalar_int(tcx, env) {
        let bits = si.to_bits_unchecked();
        return format!("{{\"int\":\"{}\",\"sz\":{},\"ty\":{}}}", bits, si.size().bytes(), q(&ty.to_string()));
    }
    if let ty::Ref(_, inner, _) = ty.kind() {
        if let Ok(val) = c.eval(tcx, env, rustc_span::DUMMY_SP) {
            match inner.kind() {
                ty::Str | ty::Slice(_) => {
                    if let Some(bytes) = val.try_get_slice_bytes_for_diagnostics(tcx) {
                        return format!("{{\"bytes\":\"{}\",\"ty\":{}}}", hex(bytes), q(&ty.to_string()));
                    }
                }
                ty::Array(et, _) if et.is_integral() => {
                    if let ConstValue::Scalar(mir::interpret::Scalar::Ptr(ptr, _)) = val {
                        let (prov, off) = ptr.into_raw_parts();
                        if let rustc_middle::mir::interpret::GlobalAlloc::Memory(a) =
                            tcx.global_alloc(prov.alloc_id())
                        {
                            let a = a.inner();
                            let bytes = a.inspect_with_uninit_and_ptr_outside_interpreter(
                                off.bytes() as usize..a.len(),
                            );
                            return format!("{{\"bytes\":\"{}\",\"ty\":{}}}", hex(bytes), q(&ty.to_string()));
                        }
                    }
                }
                _ => {}
            }
        }
    }
    // named constants / statics / promoteds that did not evaluate to a scalar
    let def = match c {
        Const::Unevaluated(u, _) => {
            let p = u.promoted.map(|p| format!("#promoted{}", p.as_u32())).unwrap_or_default();
            q(&format!("{}{}", raw_path(tcx, u.def), p))
        }
        _ => "null".into(),
    };
    format!("{{\"other\":{},\"def\":{},\"ty\":{}}}", q(&format!("{}", c)), def, q(&ty.to_string()))
}
fn operand<'tcx>(tcx: TyCtxt<'tcx>, env: TypingEnv<'tcx>, o: &Operand<'tcx>) -> String {
    match o {
        Operand::Copy(p) => format!("{{\"c\":{}}}", place(p)),
        Operand::Move(p) => format!("{{\"m\":{}}}", place(p)),
        Operand::Constant(c) => format!("{{\"k\":{}}}", konst(tcx, env, &c.const_)),
        other => format!("{{\"op\":{}}}", q(&format!("{:?}", other))),
    }
}
fn rvalue<'tcx>(tcx: TyCtxt<'tcx>, env: TypingEnv<'tcx>, r: &Rvalue<'tcx>) -> String {
    match r {
        Rvalue::Use(o, _) => format!("{{\"use\":{}}}", operand(tcx, env, o)),
        Rvalue::Ref(_, bk, p) => {
            format!("{{\"ref\":{},\"mut\":{}}}", place(p), matches!(bk, mir::BorrowKind::Mut { .. }))
        }
        Rvalue::RawPtr(k, p) => format!("{{\"ref\":{},\"mut\":{},\"raw\":true}}", place(p), format!("{:?}", k).contains("Mut")),
        Rvalue::BinaryOp(op, b) => format!(
            "{{\"bin\":\"{:?}\",\"a\":{},\"b\":{}}}",
            op,
            operand(tcx, env, &b.0),
            operand(tcx, env, &b.1)
        ),
        Rvalue::UnaryOp(op, o) => format!("{{\"un\":{},\"a\":{}}}", q(&format!("{:?}", op)), operand(tcx, env, o)),
        Rvalue::Cast(k, o, t) => format!(
            "{{\"cast\":{},\"a\":{},\"to\":{}}}",
            q(&format!("{:?}", k)),
            operand(tcx, env, o),
            q(&t.to_string())
        ),
        Rvalue::Discriminant(p) => format!("{{\"discr\":{}}}", place(p)),
        Rvalue::Repeat(o, n) => format!("{{\"repeat\":{},\"n\":{}}}", operand(tcx, env, o), q(&format!("{}", n))),
        Rvalue::CopyForDeref(p) => format!("{{\"use\":{{\"c\":{}}}}}", place(p)),
        Rvalue::Aggregate(k, ops) => {
            let kind = match &**k {
                AggregateKind::Array(_) => "\"array\"".to_string(),
                AggregateKind::Tuple => "\"tuple\"".to_string(),
                AggregateKind::Adt(d, v, _, _, fidx) => format!(
                    "{{\"adt\":{},\"variant\":{},\"vname\":{},\"union_field\":{}}}",
                    q(&pretty(tcx, *d)),
                    v.as_u32(),
                    q(tcx.adt_def(*d).variant(*v).name.as_str()),
                    fidx.map(|f| f.as_u32() as i64).unwrap_or(-1)
                ),
                AggregateKind::Closure(d, _) => format!("{{\"closure\":{}}}", q(&raw_path(tcx, *d))),
                other => q(&format!("{:?}", other)),
            };
            let os: Vec<String> = ops.iter().map(|o| operand(tcx, env, o)).collect();
            format!("{{\"agg\":{},\"ops\":[{}]}}", kind, os.join(","))
        }
        other => format!("{{\"rv\":{}}}", q(&format!("{:?}", other))),
    }
}

fn vis_str<'tcx>(tcx: TyCtxt<'tcx>, did: DefId) -> String {
    let v = tcx.visibility(did);
    if v.is_public() {
        "pub".into()
    } else {
        format!("{:?}", v)
    }
}


fn dump_body<'tcx>(tcx: TyCtxt<'tcx>, did: DefId, kind: DefKind, body: &mir::Body<'tcx>, suffix: &str, out: &mut String) {
            let env = TypingEnv::post_analysis(tcx, did);
            let is_fn = matches!(kind, DefKind::Fn | DefKind::AssocFn);
            let track = is_fn
                && tcx
                    .codegen_fn_attrs(did)
                    .flags
                    .contains(rustc_middle::middle::codegen_fn_attrs::CodegenFnAttrFlags::TRACK_CALLER);
            let vis = if is_fn { vis_str(tcx, did) } else { "n/a".into() };
            // impl header
            let mut self_ty = "null".to_string();
            let mut trait_ = "null".to_string();
            let mut impl_exp = "null".to_string();
            let owner = if matches!(kind, DefKind::Closure | DefKind::InlineConst | DefKind::AnonConst) {
                tcx.typeck_root_def_id(did)
            } else {
                did
            };
            if let Some(imp) = tcx.impl_of_assoc(owner) {
                self_ty = q(&tcx.type_of(imp).instantiate_identity().skip_norm_wip().to_string());
                if let Some(tr) = tcx.impl_opt_trait_ref(imp) {
                    trait_ = q(&tr.instantiate_identity().skip_norm_wip().print_only_trait_path().to_string());
                }
                impl_exp = expn(tcx.def_span(imp));
            } else if let Some(t) = tcx.trait_of_assoc(owner) {
                trait_ = q(&pretty(tcx, t));
                self_ty = "\"Self\"".into();
            }
            // generics (type params incl. parents)
            let mut gens: Vec<String> = Vec::new();
            {
                let g = tcx.generics_of(did);
                for i in 0..g.count() {
                    let p = g.param_at(i, tcx);
                    if matches!(p.kind, ty::GenericParamDefKind::Type { .. }) {
                        gens.push(q(p.name.as_str()));
                    }
                }
            }
            write!(
                out,
                "{{\"k\":\"fn\",\"path\":{},\"name\":{},\"kind\":\"{}\",\"argc\":{},\"vis\":{},\"tc\":{},\"end\":{},\"loc\":{},\"exp\":{},\"impl_exp\":{},\"self_ty\":{},\"trait\":{},\"generics\":[{}],\"locals\":[",
                q(&format!("{}{}", raw_path(tcx, did), suffix)),
                q(&format!("{}{}", pretty(tcx, did), suffix)),
                match kind {
                    DefKind::Fn => "Fn",
                    DefKind::AssocFn => "AssocFn",
                    DefKind::Closure => "Closure",
                    DefKind::Ctor(..) => "Ctor",
                    DefKind::Const { .. } => "Const",
                    DefKind::AssocConst { .. } => "AssocConst",
                    DefKind::Static { .. } => "Static",
                    _ => "AnonConst",
                },
                body.arg_count,
                q(&vis),
                track,
                {
                    let sp = body.span.source_callsite();
                    tcx.sess.source_map().lookup_char_pos(sp.hi()).line
                },
                q(&loc(tcx, body.span)),
                expn(body.span),
                impl_exp,
                self_ty,
                trait_,
                gens.join(",")
            )
            .unwrap();
            for (i, l) in body.local_decls.iter().enumerate() {
                if i > 0 {
                    out.push(',');
                }
                out.push_str(&q(&l.ty.to_string()));
            }
            out.push_str("],\"vars\":[");
            let mut first = true;
            for v in &body.var_debug_info {
                if let VarDebugInfoContents::Place(p) = &v.value {
                    if !first {
                        out.push(',');
                    }
                    first = false;
                    write!(*out, "[{},{}]", q(v.name.as_str()), place(p)).unwrap();
                }
            }
            out.push_str("],\"blocks\":[");
            for (bi, (_bb, data)) in body.basic_blocks.iter_enumerated().enumerate() {
                if bi > 0 {
                    out.push(',');
                }
                write!(*out, "{{\"c\":{},\"s\":[", data.is_cleanup).unwrap();
                let mut first = true;
                for st in &data.statements {
                    let s = match &st.kind {
                        StatementKind::Assign(b) => {
                            format!("{{\"l\":{},\"r\":{}", place(&b.0), rvalue(tcx, env, &b.1))
                        }
                        StatementKind::SetDiscriminant { place: p, variant_index } => {
                            format!("{{\"sd\":{},\"v\":{}", place(p), variant_index.as_u32())
                        }
                        StatementKind::Intrinsic(i) => format!("{{\"intr\":{}", q(&format!("{:?}", i))),
                        _ => continue,
                    };
                    if !first {
                        out.push(',');
                    }
                    first = false;
                    out.push_str(&s);
                    write!(
                        out,
                        ",\"at\":{},\"x\":{}}}",
                        q(&loc(tcx, st.source_info.span)),
                        expn(st.source_info.span)
                    )
                    .unwrap();
                }
                out.push_str("],\"t\":");
                let t = data.terminator();
                let at = q(&loc(tcx, t.source_info.span));
                let x = expn(t.source_info.span);
                match &t.kind {
                    TerminatorKind::Call { func, args, destination, target, .. } => {
                        let a: Vec<String> = args.iter().map(|a| operand(tcx, env, &a.node)).collect();
                        write!(
                            out,
                            "{{\"call\":{},\"args\":[{}],\"dest\":{},\"target\":{},\"at\":{},\"x\":{}}}",
                            operand(tcx, env, func),
                            a.join(","),
                            place(destination),
                            target.map(|t| t.as_u32() as i64).unwrap_or(-1),
                            at,
                            x
                        )
                        .unwrap();
                    }
                    TerminatorKind::SwitchInt { discr, targets } => {
                        let ts: Vec<String> =
                            targets.iter().map(|(v, b)| format!("[\"{}\",{}]", v, b.as_u32())).collect();
                        write!(
                            out,
                            "{{\"switch\":{},\"targets\":[{}],\"otherwise\":{},\"at\":{},\"x\":{}}}",
                            operand(tcx, env, discr),
                            ts.join(","),
                            targets.otherwise().as_u32(),
                            at,
                            x
                        )
                        .unwrap();
                    }
                    TerminatorKind::Assert { cond, expected, msg, target, .. } => {
                        // msg operands matter for bounds checks: keep the debug text and structured operands
                        let (mk, mops) = match &**msg {
                            mir::AssertKind::BoundsCheck { len, index } => {
                                ("bounds".to_string(), vec![operand(tcx, env, len), operand(tcx, env, index)])
                            }
                            mir::AssertKind::Overflow(op, a, b) => {
                                (format!("overflow:{:?}", op), vec![operand(tcx, env, a), operand(tcx, env, b)])
                            }
                            mir::AssertKind::OverflowNeg(a) => ("overflow:Neg".to_string(), vec![operand(tcx, env, a)]),
                            mir::AssertKind::DivisionByZero(a) => ("div0".to_string(), vec![operand(tcx, env, a)]),
                            mir::AssertKind::RemainderByZero(a) => ("rem0".to_string(), vec![operand(tcx, env, a)]),
                            other => (format!("{:?}", other), vec![]),
                        };
                        write!(
                            out,
                            "{{\"assert\":{},\"expected\":{},\"mk\":{},\"mops\":[{}],\"target\":{},\"at\":{},\"x\":{}}}",
                            operand(tcx, env, cond),
                            expected,
                            q(&mk),
                            mops.join(","),
                            target.as_u32(),
                            at,
                            x
                        )
                        .unwrap();
                    }
                    TerminatorKind::Goto { target } => {
                        write!(*out, "{{\"goto\":{}}}", target.as_u32()).unwrap();
                    }
                    TerminatorKind::Return => out.push_str("{\"return\":true}"),
                    TerminatorKind::Unreachable => out.push_str("{\"unreachable\":true}"),
                    TerminatorKind::UnwindResume => out.push_str("{\"resume\":true}"),
                    TerminatorKind::Drop { place: p, target, .. } => {
                        write!(*out, "{{\"drop\":{},\"target\":{}}}", place(p), target.as_u32()).unwrap();
                    }
                    TerminatorKind::FalseEdge { real_target, .. } => {
                        write!(*out, "{{\"goto\":{}}}", real_target.as_u32()).unwrap();
                    }
                    TerminatorKind::FalseUnwind { real_target, .. } => {
                        write!(*out, "{{\"goto\":{}}}", real_target.as_u32()).unwrap();
                    }
                    other => {
                        write!(*out, "{{\"other\":{},\"at\":{}}}", q(&format!("{:?}", other)), at).unwrap();
                    }
                }
                out.push('}');
            }
            out.push_str("]}\n");
}

struct Cb;
impl rustc_driver::Callbacks for Cb {
    fn after_analysis<'tcx>(
        &mut self,
        _c: &rustc_interface::interface::Compiler,
        tcx: TyCtxt<'tcx>,
    ) -> Compilation {
        let krate = tcx.crate_name(rustc_span::def_id::LOCAL_CRATE).to_string();
        let dir = match std::env::var("SV_FACTS_DIR") {
            Ok(d) => d,
            Err(_) => return Compilation::Continue,
        };
        let mut out = String::new();
        let mut n = 0;
        writeln!(out, "{{\"k\":\"crate\",\"name\":{}}}", q(&krate)).unwrap();
        for ldid in tcx.mir_keys(()) {
            let did = ldid.to_def_id();
            let kind = tcx.def_kind(did);
            let body = match kind {
                DefKind::Fn | DefKind::AssocFn | DefKind::Closure | DefKind::Ctor(..) => tcx.optimized_mir(did),
                DefKind::Const { .. }
                | DefKind::AssocConst { .. }
                | DefKind::AnonConst
                | DefKind::InlineConst
                | DefKind::Static { .. } => tcx.mir_for_ctfe(did),
                _ => continue,
            };
            n += 1;
            dump_body(tcx, did, kind, body, "", &mut out);
            if matches!(kind, DefKind::Fn | DefKind::AssocFn | DefKind::Closure) {
                for (pi, pb) in tcx.promoted_mir(did).iter_enumerated() {
                    n += 1;
                    dump_body(tcx, did, kind, pb, &format!("#promoted{}", pi.as_u32()), &mut out);
                }
            }
        }
        // ADTs
        for id in tcx.hir_free_items() {
            let did = id.owner_id.to_def_id();
            match tcx.def_kind(did) {
                DefKind::Struct | DefKind::Enum | DefKind::Union => {
                    let adt = tcx.adt_def(did);
                    let mut vs: Vec<String> = Vec::new();
                    for v in adt.variants() {
                        let fs: Vec<String> = v
                            .fields
                            .iter()
                            .map(|f| {
                                format!(
                                    "[{},{},{}]",
                                    q(f.name.as_str()),
                                    q(&tcx.type_of(f.did).instantiate_identity().skip_norm_wip().to_string()),
                                    q(&vis_str(tcx, f.did))
                                )
                            })
                            .collect();
                        vs.push(format!("{{\"name\":{},\"fields\":[{}]}}", q(v.name.as_str()), fs.join(",")));
                    }
                    writeln!(
                        out,
                        "{{\"k\":\"adt\",\"name\":{},\"path\":{},\"vis\":{},\"loc\":{},\"variants\":[{}]}}",
                        q(&pretty(tcx, did)),
                        q(&raw_path(tcx, did)),
                        q(&vis_str(tcx, did)),
                        q(&loc(tcx, tcx.def_span(did))),
                        vs.join(",")
                    )
                    .unwrap();
                }
                DefKind::Impl { of_trait } => {
                    let self_ty = tcx.type_of(did).instantiate_identity().skip_norm_wip().to_string();
                    let tr = if of_trait {
                        q(&tcx
                            .impl_trait_ref(did)
                            .instantiate_identity()
                            .skip_norm_wip()
                            .print_only_trait_path()
                            .to_string())
                    } else {
                        "null".into()
                    };
                    let items: Vec<String> = tcx
                        .associated_items(did)
                        .in_definition_order()
                        .map(|it| format!("[{},{}]", q(it.name().as_str()), q(&raw_path(tcx, it.def_id))))
                        .collect();
                    writeln!(
                        out,
                        "{{\"k\":\"impl\",\"self_ty\":{},\"trait\":{},\"exp\":{},\"loc\":{},\"items\":[{}]}}",
                        q(&self_ty),
                        tr,
                        expn(tcx.def_span(did)),
                        q(&loc(tcx, tcx.def_span(did))),
                        items.join(",")
                    )
                    .unwrap();
                }
                _ => {}
            }
        }
        std::fs::create_dir_all(&dir).unwrap();
        std::fs::write(format!("{}/{}-{}.jsonl", dir, krate, std::process::id()), out).unwrap();
        eprintln!("STARFACTS {} bodies={}", krate, n);
        Compilation::Continue
    }
}

fn main() {
    let mut args: Vec<String> = std::env::args().collect();
    // RUSTC_WORKSPACE_WRAPPER passes the real rustc path as argv[1]
    args.remove(1);
    rustc_driver::run_compiler(&args, &mut Cb);
}
