//! Tiny positive / negative examples for the analysis engine (NOT part of brave/sta-rs).
//! `bin/setup` extracts facts for this crate with the same driver and asserts that each deliberately broken function
//! is reported by the engine query its rules are built on, and that the correct twin is not.

pub struct Report {
  pub tag: Vec<u8>,
  pub body: Vec<u8>,
}

/// BROKEN: copies the secret key into the public tag (clear-text rule must see `key` raw in `tag`).
pub fn leaky_report(key: &[u8], data: &[u8]) -> Report {
  Report { tag: key.to_vec(), body: data.to_vec() }
}

/// OK twin: the tag does not contain the key.
pub fn clean_report(key: &[u8], data: &[u8]) -> Report {
  let _ = key;
  Report { tag: vec![0u8; 4], body: data.to_vec() }
}

/// BROKEN: indexes untrusted bytes without a length check (PANIC engine must leave this undischarged).
pub fn header_unguarded(bytes: &[u8]) -> Option<u32> {
  let h = &bytes[..4];
  Some(u32::from_le_bytes([h[0], h[1], h[2], h[3]]))
}

/// OK twin: the same read behind a guard (all obligations discharged).
pub fn header_guarded(bytes: &[u8]) -> Option<u32> {
  if bytes.len() < 4 {
    return None;
  }
  let h = &bytes[..4];
  Some(u32::from_le_bytes([h[0], h[1], h[2], h[3]]))
}

/// BROKEN: off-by-header guard (compares the length field against the whole buffer).
pub fn chunk_off_by_header(bytes: &[u8]) -> Option<&[u8]> {
  if bytes.len() < 4 {
    return None;
  }
  let n = u32::from_le_bytes([bytes[0], bytes[1], bytes[2], bytes[3]]) as usize;
  if bytes.len() < n {
    return None;
  }
  Some(&bytes[4..4 + n])
}

/// OK twin.
pub fn chunk_ok(bytes: &[u8]) -> Option<&[u8]> {
  if bytes.len() < 4 {
    return None;
  }
  let n = u32::from_le_bytes([bytes[0], bytes[1], bytes[2], bytes[3]]) as usize;
  let end = n.checked_add(4)?;
  if bytes.len() < end {
    return None;
  }
  Some(&bytes[4..end])
}

fn check(mac: &[u8], expected: &[u8]) -> Result<(), &'static str> {
  if mac == expected {
    Ok(())
  } else {
    Err("bad mac")
  }
}

/// BROKEN: the verification result is dropped, Ok is returned regardless (must-pass-through rule must fail).
pub fn open_unchecked(mac: &[u8], expected: &[u8], msg: &[u8]) -> Result<Vec<u8>, &'static str> {
  let _ = check(mac, expected);
  Ok(msg.to_vec())
}

/// OK twin: `?` propagates the failure, so every Ok is dominated by the successful check.
pub fn open_checked(mac: &[u8], expected: &[u8], msg: &[u8]) -> Result<Vec<u8>, &'static str> {
  check(mac, expected)?;
  Ok(msg.to_vec())
}

/// value must depend on `a` and `b` but not on `c` (dependency query, both directions).
pub fn mix(a: u32, b: u32, c: u32) -> u32 {
  let _ = c;
  a.wrapping_mul(31) ^ b
}
